#!/bin/bash
# usage: try_seed.sh <patch.diff> <PROPERTY-ID> [extra runner args]   -- applies a seeded change to /repo, runs the check, reverts.
set -u
patch="$1"; pid="$2"; shift 2
cd /repo || exit 9
if [ -n "$(git status --porcelain --untracked-files=no)" ]; then echo "REPO DIRTY - refusing"; exit 9; fi
git apply "$patch" || { echo "patch does not apply"; exit 9; }
cd /verif
cp evidence/$pid.json /tmp/evidence_$pid.bak 2>/dev/null
./check "$pid" "$@" 2>&1 | grep -v "^note:" | tail -${TAIL:-6}
rc=${PIPESTATUS[0]}
cp /tmp/evidence_$pid.bak evidence/$pid.json 2>/dev/null
git -C /repo checkout -- . 
echo "exit=$rc"
