"""Run the repository's pinned test suite and compare with /root/.vp/BASELINE.json stable_pass."""
import json, subprocess, sys, os, tempfile
import xml.etree.ElementTree as ET
base = json.load(open("/root/.vp/BASELINE.json"))
out = tempfile.mktemp(suffix=".xml", dir="/tmp")
env = dict(os.environ)
env.pop("NEMO_GUARDRAILS_VERIF", None)
repo = sys.argv[1] if len(sys.argv) > 1 else "/repo"
subprocess.run(["/venv/bin/python", "-m", "pytest", "-ra", "-q", "-p", "no:cacheprovider", "--timeout=900",
                "--continue-on-collection-errors", "--junitxml=" + out], cwd=repo, env=dict(env, PYTHONPATH=repo),
               stdout=subprocess.DEVNULL, stderr=subprocess.DEVNULL)
passed = set()
for tc in ET.parse(out).getroot().iter("testcase"):
    if not any(ch.tag in ("failure", "error", "skipped") for ch in tc):
        passed.add(tc.get("classname") + "::" + tc.get("name"))
os.remove(out)
missing = [t for t in base["stable_pass"] if t not in passed]
print("stable_pass: %d, passing now: %d, missing: %d" % (len(base["stable_pass"]), len(base["stable_pass"]) - len(missing), len(missing)))
for m in missing:
    print("  MISSING", m)
sys.exit(1 if missing else 0)
