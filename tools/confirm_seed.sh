#!/bin/bash
# usage: confirm_seed.sh <worktree> <seed-dir>   -- confirms a seeded change independently: demo passes on clean tree, fails with the
# change, and the pinned test-suite still passes with the change. Prints a one-line JSON summary.
wt="$1"; sd="$2"
cd "$wt" || exit 9
git checkout -q -- . 
clean_rc=$(cd "$sd" && PYTHONPATH="$wt" timeout 600 /venv/bin/python demo.py >/dev/null 2>&1; echo $?)
git apply "$sd/patch.diff" || { echo "{\"seed\":\"$sd\",\"error\":\"patch does not apply\"}"; exit 9; }
mut_rc=$(cd "$sd" && PYTHONPATH="$wt" timeout 600 /venv/bin/python demo.py >/dev/null 2>&1; echo $?)
suite=$(PYTHONPATH="$wt" /venv/bin/python /verif/tools/baseline.py "$wt" | head -1)
git checkout -q -- .
echo "{\"seed\":\"$sd\",\"demo_clean_exit\":$clean_rc,\"demo_mutated_exit\":$mut_rc,\"suite\":\"$suite\"}"
