#!/bin/bash
# usage: try_seed_wt.sh <worktree> <patch.diff> <PROPERTY-ID> [extra runner args]
# Applies a seeded change in a scratch worktree of /repo (never in /repo itself), runs the check against that worktree with evidence/replays
# redirected to <worktree>/.verif_out, and reverts the worktree. Several of these can run in parallel on different worktrees.
set -u
wt="$1"; patch="$2"; pid="$3"; shift 3
cd "$wt" || exit 9
git checkout -q -- . ; git checkout -q --detach main 2>/dev/null
git apply "$patch" || { echo "patch does not apply"; exit 9; }
cd /verif
mkdir -p "$wt/.verif_out"
VERIF_REPO="$wt" VERIF_OUT="$wt/.verif_out" ./check "$pid" "$@" 2>&1 | grep -v "^note:" | tail -${TAIL:-6}
rc=${PIPESTATUS[0]}
git -C "$wt" checkout -q -- .
echo "exit=$rc"
