"""Regenerates MANIFEST.json from the table below (keeps it schema-valid)."""
import json, os, sys
ROOT = os.path.dirname(os.path.dirname(os.path.abspath(__file__)))
sys.path.insert(0, ROOT)

TECH = "bounded symbolic execution of the real Python code (CrossHair 0.0.110) with z3 deciding every path; counterexamples replayed concretely"

CHECKS = {
    "C05": dict(
        text="For 2 (thorough 3) competing flows with every specificity vector over 4 match patterns, symbolic action selectors, priorities, event payloads, an optional "
             "unmentioned parameter, several loop assignments and symbolic tie-break outcomes, every path of the real run_to_completion/_resolve_action_conflicts ends in a state "
             "explained by some maximal-score winner: identical actions co-advance and the event is emitted once, other fitting flows are stopped, non-fitting flows and flows in "
             "other loops are untouched; both members of an exact tie are shown to win for some tie-break value (twins).",
        note="The competitors are parked natively; priority/action selector are written into the flow state by the harness; only the competing event is processed under the engine. "
             "Priorities are index-selected floats (symbolic reals cost ~5 s solver time per path). Outside: >3 competitors, internal-event competition.",
        ref="4/C05"),
    "C07": dict(
        text="(a) DNF: for all 1458 and/or formula shapes of depth<=3 (node kinds symbolic) z3 proves, per shape, that the normal form is an or-of-ands of the original "
             "leaves and is equivalent to the formula for ALL 256 truth assignments at once (one solver query per shape, no enumeration of assignments). "
             "(b) run time: for every and/or tree over 2-3 (thorough 4) distinct leaves, for `match` on events and `await`/`when` on flows, for every event sequence "
             "(all orders, repeats, irrelevant events) and every outcome of the interpreter's random tie-breaks, the statement after the group fires at exactly the first "
             "step at which the formula holds on the events seen, once.",
        note="Programs are built from source text per path (parse untraced, expansion + run_to_completion traced). Outside: >4 leaves, a leaf written twice, payloads.",
        ref="4/C07"),
    "C13": dict(
        text="(a) error path: for every exception shape the parsers can raise (13-entry pool incl. Lark errors with line None/-1/out of range or no position at all), "
             "every file of 0..3 lines, both Colang versions, every path of the real loader handler + message formatter ends in ColangParsingError naming the file; a 36-file "
             "malformed corpus goes through RailsConfig.from_path with the real parsers. (b) layout: every single (thorough: every pair of) blank-line / trailing-space / "
             "indentation-scale / end-of-line-comment / whitespace-only-line edit of 5 catalogue programs parses to the same flows modulo source positions.",
        note="The parsers themselves are executed natively on inputs that are concrete per path (Lark's lexer would realise symbolic text): for (b) and the corpus the solver "
             "only enumerates the finite edit/index space exhaustively. Not claimed: totality of the parsers over arbitrary text, hangs, trailing tabs, comment-only lines.",
        ref="4/C13"),
    "C19": dict(
        text="(a) cache decorator: for every list of <=4 texts over a 3-text pool (thorough 4-text pool incl. all-distinct), every pre-filled cache subset, cache on/off, "
             "key generators md5/hash/identity and two stores, every path of the real wrapper returns each text's own vector in input order and asks the model only for "
             "uncached texts. (b) batching on a virtual-time asyncio loop: for all arrival delays (0..2 ticks) of 3 (thorough 4) concurrent clients, model latency 0..3, "
             "max_batch_size 1..3 and hold 1..2, every client completes with its own vector, queues end empty, batches respect the size limit.",
        note="Trusted: VLoop (integer virtual time, FIFO ties), stub model, CrossHair. Data independence is used to fix the batching texts. Outside: real model/threads, Annoy, "
             "Redis/filesystem stores, sub-tick timing, colliding custom key generators.",
        ref="4/C19"),
    "C20": dict(
        text="(a) For every config id string up to 5 code points (thorough 6; two ids up to 4 each) and three root spellings, z3 proves on every path of the real "
             "_get_rails (join, normpath, regex, commonprefix) that every directory handed to RailsConfig.from_path lies inside the root, else ValueError; a hostile "
             "id pool goes through chat_completion for the fixed reply. (b) every sequence of <=3 (thorough 4) requests over 5 thread selectors against a reference "
             "thread model (exact history in, history+reply stored, no mixing, short id refused), plus two arbitrary symbolic 16-17 char ids.",
        note="Trusted: pure-Python normpath copy (differential-tested), list-backed dict for symbolic keys, recorder stubs for RailsConfig/LLMRails. "
             "Outside: Windows semantics, HTTP/pydantic layer, streaming, longer ids.",
        ref="4/C20"),
    "C04": dict(
        text="For 35 pattern shapes x 28 payload shapes (depth<=2, width<=3: lists, sets, dicts, nested, regex objects, scalars) with symbolic int leaves 0..2 "
             "and symbolic string leaves (len<=2, any code point), z3 proves on every path of the real matcher that score>0 iff a reference matcher written "
             "from the statement accepts, exact 0.9^unmentioned*priority scores at event level, instance binding (action_uid / flow instance), and the same "
             "equivalence end to end through run_to_completion on `match Ev(p=<pattern>)` programs.",
        note="Trusted: CrossHair's int/str/regex models, the 45-line ref_match oracle. Outside: depth>2, floats, ComparisonExpression, bool-vs-int leaves.",
        ref="4/C04"),
    "C15": dict(
        text="(a) cache key: for all pairs of conversations of <=2 (thorough 3) messages with symbolic texts, conversations whose full content joins differ get "
             "different keys (nothing dropped/normalised); the raw injectivity statement is re-refuted each run and must fall in the recorded finding's region. "
             "(c) LLMParams: every interleaving of 2 (thorough 3) enter/call/exit tasks on a shared LLM object: disciplined (sequential / properly nested) schedules "
             "are proved correct; undisciplined overlap is the recorded finding.",
        note="Two genuine defects are recorded as known findings (not repairable with a small patch: key format pinned by tests; shared mutable LLM object). "
             "LLMRails-level interleavings (b,d) not yet covered here.",
        ref="4/C15"),
    "C18": dict(
        text="For every text up to 4 code points (quick; 5 thorough) over the whole Unicode alphabet and every split into 1-3 non-empty chunks, "
             "for 10 prefix/suffix/stop configurations, z3 proves on every path of the real StreamingHandler that the delivered stream, the "
             "1-chunk stream, handler.completion and the statement's spec coincide. Bounded proof, not sampling; nothing is claimed beyond the bounds.",
        note="Trusted: CrossHair's str model, z3, the 25-line spec() oracle, the assumption that handler coroutines do not suspend (asserted). "
             "Outside: longer texts, >3 chunks, buffering/pipe paths, patterns outside the catalogue.",
        ref="4/C18"),
    "C09": dict(
        text="For 10 catalogue programs (children with actions, when/or-when scopes, or-groups of flows, activate waiting/immediate/two activators, grand-children with and/or "
             "groups, competing flows, while+if) and every history of 2 (thorough 3-4) events over each program's alphabet incl. ActionStarted/Finished feedback, symbolic payload "
             "offsets, symbolic tie-breaks and an optional 10 s idle gap (clean-up) at any step, every path of the real run_to_completion ends with: empty internal queue, every "
             "live head of a running flow on a match/WaitForHeads element, done flows without heads, all child/action/scope references of running flows resolving, and "
             "event_matching_heads == from-scratch scan (multiset) with an exact reverse map and flow_id_states == group-by of flow_states.",
        note="The state is brought to the post-`Go` situation natively; everything after is traced. Outside: programs outside the catalogue, longer histories.",
        ref="4/C09"),
    "C06": dict(
        text="For 9 catalogue programs (parents awaiting/starting children with actions, finish and StopFlow of the parent, when/or-when scopes, or-groups, two flows sharing an identical "
             "action, activate of waiting / immediately finishing flows, two activators with equal and different arguments, grand-children) and every history of 2 (thorough 3-4) events "
             "incl. ActionStarted/Finished feedback arriving early, late or never, symbolic payload offsets and tie-breaks and an optional idle gap, on every path of the real interpreter: "
             "every running non-activated flow has a running parent after each event; per action uid Stop comes only after Start, never after Finished, at most once, exactly when the last "
             "flow holding the unfinished action ends; activated flows have one running instance per argument set iff an activator runs and answer their trigger exactly once.",
        note="Owners of an action are read from FlowState.action_uids, the starter of a flow from parent_uid; the activation oracle is a per-program table. Outside: other hierarchies, explicit deactivate.",
        ref="4/C06"),
    "C08": dict(
        text="For 8 signatures (0-3 parameters with/without defaults), all 58 call shapes (k positional + any named subset), three call forms ($r = await, start..as + match Finished, two "
             "concurrent instances) and two argument styles (event members / caller locals whose names clash with callee parameters), with symbolic int, str (len<=2, any code point) and "
             "None/True/list/dict argument values, every path of the real create_flow_instance/_start_flow/slide binds each parameter to its positional or named argument evaluated in the "
             "caller or to its default, returns the callee's return value to the caller, and leaves caller and sibling variables of the same names untouched.",
        note="Program text is generated per call shape and parsed natively; the event carrying the symbolic values and everything after it is traced. Outside: >3 parameters, globals, surplus arguments.",
        ref="4/C08"),
    "C10": dict(
        text="Through the real RuntimeV2_x.process_events (driven on a virtual-time asyncio loop): for 8 kinds of faulty flow (type error in an assignment, comparison pattern that cannot be "
             "built, comparison against a payload of the wrong type, invalid regex pattern, priority out of range, payload-dependent division by zero and index error, fault-free control), "
             "started once or activated, and every history of 2 (thorough 3) events over {Ev(a symbolic int), Ev(a string), Other, Irrelevant}: no exception escapes, every run_to_completion "
             "stays within a step budget, an unrelated flow in another interaction loop and one in the same loop react exactly once to each of their events, ColangError is observed exactly "
             "when the payload triggers the fault, and only the faulty flow stops. Termination family: an activated flow that aborts / raises / returns before any wait depending on a "
             "symbolic payload, and mutually recursive flows with waits, stay within the budget.",
        note="The step budget (150 internal events per run_to_completion; the unchanged tree needs <=14) is divergence detection, not a complexity proof. Calls whose event and state are fully "
             "concrete run natively. Outside: wait-free loops (excluded by the property), faults in library flows.",
        ref="4/C10"),
    "C14": dict(
        text="For 15 catalogue programs over {user, bot, set, if/else (nested, no else, and/not), while with counter, break, continue, do subflow (with user turns, called twice, finishing "
             "immediately), execute with/without result}, symbolic initial context (x 0..3, y 0..1), symbolic action results (0..2) and a symbolic choice at every user turn between following "
             "the flow and an unrelated intent, every path of the real compute_next_steps/compute_next_state/slide decides, after every event of dialogs with 6 (thorough 9) decision points, "
             "exactly the next statement given by a reference interpreter of the structured program; the decision on a used flow_configs object equals the decision on a fresh copy.",
        note="Programs are ASTs rendered to Colang 1.0 text and parsed by the real parser once per program (untraced). Outside: competing intents, several dialog flows, priorities, when/else when.",
        ref="4/C14"),
    "C01": dict(
        text="Through the real LLMRails.generate_async (shipped llm_flows.co, real prompts, FakeLLM recording every prompt): Colang 1.0 with 2 (thorough 3) input rails whose verdicts "
             "accept/reject/rewrite are symbolic, user text on a predefined dialog path or on the full 3-call generation path, refusal by message or rail exception, 1 (thorough 2) turns: on "
             "every path the rails invoked are exactly 1..k+1 in configured order, each sees the text as rewritten so far, a rejection means zero LLM calls in the turn and that rail's refusal, "
             "otherwise every LLM call follows the last rail, no prompt contains the original text once rewritten and the intent prompt contains the text let through. Colang 2.x + "
             "library/guardrails.co: 2 (thorough 3) rails accept/reject, order, stop at first rejection, refusal / rail exception, dialog flow not reacting to a rejected message.",
        note="User texts are concrete markers (taint check, not a quantification over strings). Stubs: FakeLLM, StubVec embeddings, VLoop, handover of the v2 state object. Outside: >2 turns.",
        ref="4/C01"),
    "C02": dict(
        text="Through the real LLMRails.generate_async over 2 (thorough 3) turns of one conversation: Colang 1.0 with 1 (thorough 2) output rails (symbolic accept/reject/rewrite per turn) "
             "and a symbolic choice per turn between a predefined and an LLM-generated bot message; Colang 2.x + library/guardrails.co with 1 (thorough 2) output rails. On every path each "
             "LLM-generated message is passed to the output rails in order (rewritten text to later rails), the reply is the checked / rewritten text or the refusal / rail exception, a "
             "rejected text never appears in the response, and this holds in every later turn whatever the earlier verdicts were.",
        note="Bot texts are concrete markers per turn; in v2 the turn's text comes from a stub action standing for the LLM; v2 state handed over by reference. Outside: streaming, >3 turns.",
        ref="4/C02"),
    "C03": dict(
        text="Through the real LLMRails.generate_async over 2 (thorough 3) turns with an input rail action, a dialog action and an output rail action (verdicts accept), one (thorough two) "
             "injected exception(s) at symbolic global invocation indices covering every call site of every turn, Colang 1.0 and 2.x: generate returns normally, the text guarded by the "
             "failed action never reaches the response, a failed rail action yields a refusal or the fixed internal-error message, and a fault-free turn - in particular the turn after a "
             "fault - runs all three actions in order and returns the checked text.",
        note="Outside: LLM provider failures (excluded by the property), faults inside the library's own LLM actions.",
        ref="4/C03"),
    "C11": dict(
        text="(b) For 16 programs (the C06/C09 catalogue plus programs whose variables hold nested lists/dicts, floats, booleans, strings, a regex and a comparison flow parameter, a dict with int "
             "keys, and references to events/actions/flows used again after the cut): the state after the catalogue prefix and 0-1 (thorough: every cut of 3-4) further events is serialised with the "
             "real state_to_json, parsed back with json_to_state, and for every symbolic continuation (event selectors, payload offsets, tie-breaks) the restored state emits the same outgoing events "
             "as the live one up to fresh identifiers; serialisation must not raise. (c) a 10 s idle gap at any position never changes the outgoing events. (a) decode(encode(v)) == v with types "
             "and dict aliasing preserved for pairs of values over 10 kinds, also through real JSON text.",
        note="The history before the cut is enumerated (made concrete) so that the state at the cut is a native object for the C-level JSON encoder; the continuation is symbolic. Outside: symbolic values "
             "inside the serialised state, LLMRails level.",
        ref="4/C11"),
    "C16": dict(
        text="Through the real LLMRails.generate_async with the `rails` generation option: all 15 non-empty subsets of {input, dialog, retrieval, output} in list and dict form, 1 (thorough 2) input "
             "and output rails with symbolic accept/reject/rewrite verdicts, one retrieval rail, a bot message supplied exactly when dialog is off and output is on: on every path the reply, the "
             "sequence of rail actions and LLM calls, and log.activated_rails (input/output entries, order, stop flag on exactly the blocking rail) equal a reference table written from the statement; "
             "disabled categories never invoke their actions and the LLM is called only by dialog rails.",
        note="Colang 1.0 only (options are not supported for 2.x by design). Texts are concrete markers. Outside: selecting individual rails by name.",
        ref="4/C16"),
    "C17": dict(
        text="(a) For every string of up to 4 code points (any Unicode) z3 proves on every path of the 13 post-processing helpers / output parsers every LLM completion goes through "
             "(first non-empty line, top-k lines, quote stripping, multi-line response, intent/action identifier helpers, user/bot intent and message parsers, verbose_v1 parser) that none "
             "raises, result types are as documented and results are parts of / no longer than the input; the five completion prefixes followed by any string of up to 3 code points are "
             "stripped exactly as specified. (c) Through the real LLMRails.generate_async (Colang 1.0: three-call mode, single_call mode, `$x = ...` value generation) with the completion of "
             "one symbolic LLM call being any concatenation of 2 (thorough 3) tokens of an 18-token hostile alphabet, generate returns a well-formed assistant / rail-exception message and never "
             "raises; template and variable syntax in an LLM-produced bot message is returned verbatim.",
        note="In (c) the completion is concrete on each path (the solver enumerates token indices; the pipeline then runs natively) - only (a) is symbolic reasoning over strings. "
             "Outside: Colang 2.x LLM flows (`import llm`), multi-step dynamic flow generation, long outputs.",
        ref="0.4, 4/C17"),
}

NOT_APPLICABLE = {
    "C12": "The quantifier of C12 is over programs. Program text is realised at once by the Lark lexer (2.x) / the regex-based parser (1.0), so the expansion code can only be run on concrete "
           "programs: the solver could at best drive an enumeration of skeleton programs with every downstream step concrete, i.e. enumeration of concrete runs, which is not solver-based "
           "checking. A closure check over the shipped .co files and the catalogue programs would be a plain test and is not claimed (DESIGN.md 0.1).",
}


def main():
    props = [json.loads(l)["id"] for l in open(os.path.join(ROOT, "properties.jsonl"))]
    checks = []
    for pid in props:
        if pid not in CHECKS:
            continue
        c = CHECKS[pid]
        checks.append({
            "property_id": pid,
            "quick_cmd": "./check %s --tier quick" % pid,
            "thorough_cmd": "./check %s --tier thorough" % pid,
            "evidence_file": "/verif/evidence/%s.json" % pid,
            "replay_cmd_template": "./check %s --replay {path}" % pid,
            "engine": "crosshair-z3",
            "level_claimed": {"category": "other", "text": c["text"], "design_ref": c["ref"]},
            "level_note": c["note"],
            "technique": c.get("technique", TECH),
        })
    na = [{"property_id": p, "reason": NOT_APPLICABLE.get(p, "check not built yet in this session; no claim is made")}
          for p in props if p not in CHECKS]
    m = {
        "version": 1,
        "setup_cmd": "./setup.sh",
        "hooks": {"guard": "NEMO_GUARDRAILS_VERIF", "enable": "no source hooks: all instrumentation is monkey-patched from the harness process (vlib/stubs.py)",
                  "baseline_off_cmd": "cd /repo && /venv/bin/python -m pytest -ra -q -p no:cacheprovider --timeout=900 --continue-on-collection-errors",
                  "source_commits": [], "add_only": True},
        "engines": [{"name": "crosshair-z3", "path": "/verif/vlib", "serves_properties": [c["property_id"] for c in checks],
                     "kind_free_text": "symbolic execution of the repository's Python byte-code (CrossHair) with z3 as the deciding solver; one OS process per (condition, slice)"}],
        "checks": checks,
        "not_applicable": na,
        "notes": "Exit codes: 0 held within bounds, 1 VIOLATION (replayed concretely), 2 inconclusive/harness error (never reported as success). See DESIGN.md.",
    }
    json.dump(m, open(os.path.join(ROOT, "MANIFEST.json"), "w"), indent=1)
    try:
        import jsonschema
        jsonschema.validate(m, json.load(open("/root/.vp/MANIFEST.schema.json")))
        print("MANIFEST.json valid:", len(checks), "checks,", len(na), "not_applicable")
    except ImportError:
        print("written (jsonschema not available)")


if __name__ == "__main__":
    main()
