#!/bin/bash
# Offline, idempotent: overlay venv on /venv (which has the repository's deps) + crosshair-tool from the wheelhouse.
set -e
cd "$(dirname "$0")"
if [ ! -x .venv/bin/python ] || ! .venv/bin/python -c "import crosshair, z3" 2>/dev/null; then
  rm -rf .venv
  /venv/bin/python -m venv .venv
  echo "import site; site.addsitedir('/venv/lib/python3.12/site-packages')" > .venv/lib/python3.12/site-packages/_overlay.pth
  PIP_NO_INDEX=1 .venv/bin/pip install -q --no-index --find-links /opt/veriftools/wheels crosshair-tool
fi
.venv/bin/python - <<'P'
import crosshair, z3, nemoguardrails
assert crosshair.__version__ == "0.0.110", crosshair.__version__
assert nemoguardrails.__file__.startswith("/repo/"), nemoguardrails.__file__
print("setup ok: crosshair", crosshair.__version__, "z3", z3.get_version_string())
P
