"""C19 - embedding search returns each query's own embedding under caching and batching.

Real code: nemoguardrails.embeddings.cache.cache_embeddings / EmbeddingsCache / InMemoryCacheStore / key generators,
nemoguardrails.embeddings.basic.BasicEmbeddingsIndex._batch_get_embeddings / _run_batch / _get_embeddings.
"""
import asyncio

from harness.common import conc, run_coro, sl
from harness.vloop import VLoop
from vlib import stubs

import harness.common  # noqa
from nemoguardrails.embeddings.basic import BasicEmbeddingsIndex
from nemoguardrails.embeddings.cache import CacheStore, EmbeddingsCache, KeyGenerator
from nemoguardrails.rails.llm.config import EmbeddingsCacheConfig

stubs.install(clock=False, choice=False)

FUNCTIONS = [
    "nemoguardrails.embeddings.cache.cache_embeddings (wrapper)",
    "nemoguardrails.embeddings.cache.EmbeddingsCache.get/set/from_config",
    "nemoguardrails.embeddings.cache.MD5KeyGenerator/HashKeyGenerator.generate_key",
    "nemoguardrails.embeddings.basic.BasicEmbeddingsIndex._get_embeddings",
    "nemoguardrails.embeddings.basic.BasicEmbeddingsIndex._batch_get_embeddings",
    "nemoguardrails.embeddings.basic.BasicEmbeddingsIndex._run_batch",
    "asyncio.sleep / asyncio.wait / asyncio.Event (stdlib, on the virtual-time loop)",
]
LAST_INFO = None
POOL = ["", "alpha", "beta", "alpha beta"]


def tracing():
    try:
        from crosshair.tracers import is_tracing

        return is_tracing()
    except ImportError:
        return False


def vec(text):
    return [float(len(text)), float(POOL.index(text))]


class SharedMemStore(CacheStore):
    """An in-memory store that (unlike InMemoryCacheStore, which from_config re-creates per call) persists between calls."""

    name = "shared_mem"
    data = {}

    def __init__(self, **kwargs):
        pass

    def get(self, key):
        return SharedMemStore.data.get(key)

    def set(self, key, value):
        SharedMemStore.data[key] = value

    def clear(self):
        SharedMemStore.data = {}


class IdentityKey(KeyGenerator):
    name = "identity"

    def generate_key(self, text):
        return "k:" + text


class Model:
    def __init__(self, latency=None, per_call=None):
        self.calls = []
        self.latency = latency
        self.per_call = per_call  # latency of the k-th call (last entry repeats)

    async def encode_async(self, texts):
        k = len(self.calls)
        self.calls.append(list(texts))
        if self.per_call is not None:
            await asyncio.sleep(self.per_call[min(k, len(self.per_call) - 1)])
        elif self.latency is not None:
            await asyncio.sleep(self.latency)
        return [vec(t) for t in texts]


def _pick(k):
    i = 0
    while i < len(POOL) - 1:
        if k == i:
            break
        i += 1
    return POOL[i]


PSIZE = int(sl("pool", 4))  # number of pool texts in use
NFIX = sl("n")  # exact list length (partition parameter) or None
KEYGEN = sl("keygen", "md5")
STORE = sl("store", "shared_mem")


def cache_own_vectors(n: int, t0: int, t1: int, t2: int, t3: int, f0: bool, f1: bool, f2: bool, f3: bool, enabled: bool) -> bool:
    """
    result[i] == model(texts[i]) in input order for every list of n<=4 texts over the pool (duplicates, empty string),
    every pre-filled subset of the cache, cache on/off; the model is only asked for texts that were not cached.
    pre: 0 <= n <= 4 and 0 <= t0 < PSIZE and 0 <= t1 < PSIZE and 0 <= t2 < PSIZE and 0 <= t3 < PSIZE
    pre: NFIX is None or n == NFIX
    pre: PSIZE == 4 or not f3
    post: _
    """
    global LAST_INFO
    SharedMemStore.data = {}
    texts = [_pick(t) for t in [t0, t1, t2, t3][:n]] if False else []
    k = 0
    for t in (t0, t1, t2, t3):
        if k < n:
            texts.append(_pick(t))
        k += 1
    cfg = EmbeddingsCacheConfig(enabled=bool(enabled), key_generator=KEYGEN, store=STORE, store_config={})
    idx = BasicEmbeddingsIndex(cache_config=cfg)
    model = Model()
    idx._model = model
    prefilled = []
    if enabled:
        cache = EmbeddingsCache.from_config(cfg)
        for flag, text in zip((f0, f1, f2, f3), POOL):
            if flag:
                cache.set(text, vec(text))
                prefilled.append(text)
    res = run_coro(idx._get_embeddings(texts))  # the stub model does not suspend: no event loop needed
    asked = [t for call in model.calls for t in call]
    if not tracing():
        LAST_INFO = {"texts": texts, "prefilled": prefilled, "enabled": enabled, "result": res, "model_calls": model.calls}
    if len(res) != len(texts):
        return False
    for r, t in zip(res, texts):
        if r != vec(t):
            return False
    if enabled and STORE == "shared_mem":
        for t in asked:
            if t in prefilled:
                return False
    return True


def cache_twin(n: int, t0: int, t1: int, t2: int, t3: int, f0: bool, f1: bool, f2: bool, f3: bool, enabled: bool) -> bool:
    """
    Twin: claims a partially cached request (some texts cached, some not, with a duplicate) never happens.
    pre: 0 <= n <= 4 and 0 <= t0 <= 3 and 0 <= t1 <= 3 and 0 <= t2 <= 3 and 0 <= t3 <= 3
    post: _
    """
    return not (enabled and n == 4 and t0 == t2 and t0 != t1 and f1 and not f0 and t1 == 1 and t0 == 0)


# ---- batching -------------------------------------------------------------
NCLIENTS = int(sl("clients", 3))
MAXB = int(sl("max_batch", 2))
HOLD = int(sl("hold", 2))


def batching_own_vectors(d0: int, d1: int, d2: int, d3: int, lat: int, t0: int, t1: int, t2: int, t3: int) -> bool:
    """
    Every concurrent request completes and gets its own text's vector, for all arrival delays, model latency and texts.
    pre: 0 <= d0 <= DMAX and 0 <= d1 <= DMAX and 0 <= d2 <= DMAX and 0 <= d3 <= DMAX and 0 <= lat <= LMAX
    pre: 0 <= t0 <= 3 and 0 <= t1 <= 3 and 0 <= t2 <= 3 and 0 <= t3 <= 3
    post: _
    """
    global LAST_INFO
    idx = BasicEmbeddingsIndex(use_batching=True, max_batch_size=MAXB, max_batch_hold=HOLD)
    model = Model(latency=lat)
    idx._model = model
    loop = VLoop()
    delays = [d0, d1, d2, d3][:NCLIENTS]
    # data independence: batching never inspects the texts; a fixed assignment with one duplicate and the empty string
    texts = ["alpha", "beta", "alpha", ""][:NCLIENTS]

    async def client(delay, text):
        if delay > 0:
            await asyncio.sleep(delay)
        return await idx._batch_get_embeddings(text)

    tasks = [loop.create_task(client(d, t)) for d, t in zip(delays, texts)]
    loop.run(max_steps=3000)
    ok = True
    results = []
    for task, text in zip(tasks, texts):
        if not task.done():
            ok = False
            results.append("NOT DONE")
            continue
        if task.exception() is not None:
            ok = False
            results.append(repr(task.exception()))
            continue
        results.append(task.result())
        if task.result() != vec(text):
            ok = False
    if len(idx._req_queue) != 0 or len(idx._req_results) != 0:
        ok = False
    for call in model.calls:
        if len(call) > MAXB:
            ok = False
    if not tracing():
        LAST_INFO = {"delays": delays, "latency": lat, "texts": texts, "results": results, "batches": model.calls,
                     "leftover_queue": dict(idx._req_queue), "leftover_results": dict(idx._req_results), "loop_errors": [str(e) for e in loop.errors]}
    return ok and not loop.errors


LATS = [0, 1, 3]


def batching_percall(g1: int, g2: int, g3: int, l0: int, l1: int, l2: int) -> bool:
    """
    Four clients arriving at 0, g1, g1+g2, g1+g2+g3 ticks; the k-th model call takes LATS[l_k] ticks (so batches can overtake each other
    and finish in the same tick): every request completes with its own vector.
    pre: 0 <= g1 <= GMAX and 0 <= g2 <= GMAX and 0 <= g3 <= GMAX and 0 <= l0 <= 2 and 0 <= l1 <= 2 and 0 <= l2 <= 2
    post: _
    """
    global LAST_INFO
    idx = BasicEmbeddingsIndex(use_batching=True, max_batch_size=MAXB, max_batch_hold=HOLD)
    lats = [LATS[conc(l0, 0, 2)], LATS[conc(l1, 0, 2)], LATS[conc(l2, 0, 2)]]
    model = Model(per_call=lats)
    idx._model = model
    loop = VLoop()
    delays = [0, g1, g1 + g2, g1 + g2 + g3]
    texts = ["alpha", "beta", "alpha beta", ""]

    async def client(delay, text):
        if delay > 0:
            await asyncio.sleep(delay)
        return await idx._batch_get_embeddings(text)

    tasks = [loop.create_task(client(d, t)) for d, t in zip(delays, texts)]
    loop.run(max_steps=4000)
    ok = True
    results = []
    for task, text in zip(tasks, texts):
        if not task.done():
            ok = False
            results.append("NOT DONE")
        elif task.exception() is not None:
            ok = False
            results.append(repr(task.exception()))
        else:
            results.append(task.result())
            if task.result() != vec(text):
                ok = False
    if len(idx._req_queue) != 0 or len(idx._req_results) != 0:
        ok = False
    if not tracing():
        LAST_INFO = {"arrivals": delays, "call_latencies": lats, "results": results, "batches": model.calls, "loop_errors": [str(e) for e in loop.errors]}
    return ok and not loop.errors


GMAX = int(sl("gmax", 2))
DMAX = int(sl("dmax", 2))
LMAX = int(sl("lmax", 2))


def batching_twin(d0: int, d1: int, d2: int, d3: int, lat: int, t0: int, t1: int, t2: int, t3: int) -> bool:
    """
    Twin: claims two requests are never put into the same batch.
    pre: 0 <= d0 <= DMAX and 0 <= d1 <= DMAX and 0 <= d2 <= DMAX and 0 <= d3 <= DMAX and 0 <= lat <= LMAX
    pre: 0 <= t0 <= 3 and 0 <= t1 <= 3 and 0 <= t2 <= 3 and 0 <= t3 <= 3
    post: _
    """
    idx = BasicEmbeddingsIndex(use_batching=True, max_batch_size=MAXB, max_batch_hold=HOLD)
    model = Model(latency=lat)
    idx._model = model
    loop = VLoop()
    delays = [d0, d1, d2, d3][:NCLIENTS]
    texts = ["alpha", "beta", "alpha", ""][:NCLIENTS]

    async def client(delay, text):
        if delay > 0:
            await asyncio.sleep(delay)
        return await idx._batch_get_embeddings(text)

    for d, t in zip(delays, texts):
        loop.create_task(client(d, t))
    loop.run(max_steps=3000)
    for call in model.calls:
        if len(call) >= 2:
            return False
    return True


_CSMOKE = {"n": 4, "t0": 0, "t1": 1, "t2": 0, "t3": 3, "f0": False, "f1": True, "f2": False, "f3": False, "enabled": True}
_BSMOKE = {"d0": 0, "d1": 0, "d2": 1, "d3": 2, "lat": 1, "t0": 1, "t1": 2, "t2": 1, "t3": 0}

SPEC = {
    "property": "C19",
    "functions": FUNCTIONS,
    "bounds": "(a) lists of 0..4 texts drawn from a 4-text pool ('' and three others: equality pattern is all the code can observe), every pre-filled cache subset, cache on/off, "
              "key generators md5/hash/identity, stores shared in-memory and the shipped in_memory; (b) 3 (thorough 4) concurrent clients, arrival delays 0..2 ticks, "
              "model latency 0..2 ticks, max_batch_size 1..3, max_batch_hold 1..2 ticks on a virtual-time event loop",
    "outside": "real embedding model and executor threads; Annoy search; Redis/filesystem stores; sub-tick timing; more than 4 clients; colliding custom key generators",
    "assumptions": ["VLoop: asyncio event loop with integer virtual time (all timers due at the current instant become ready together, in `when` order, ties FIFO, like BaseEventLoop._run_once; time jumps when idle)",
                    "embedding model stub: deterministic injective vector per pool text, latency = harness variable",
                    "all text/delay values are bounded ints that index concrete pools: the solver quantifies over the index/timing vectors"],
    "explanation": "Oracle: each result equals vec(own text), order preserved, all client tasks complete, queues empty at the end, batches <= max_batch_size.",
    "conditions": [
        {"fn": "cache_own_vectors", "tiers": ("quick",), "slices": [{"keygen": k, "store": st, "pool": 3, "n": n} for (k, st) in
                                                 (("md5", "shared_mem"), ("hash", "shared_mem"), ("identity", "shared_mem"), ("md5", "in_memory")) for n in (0, 1, 2, 3, 4)],
         "tcond": 600, "tpath": 10, "bound": "n<=4 texts over a 3-text pool, 8 prefill subsets, cache on/off", "smoke": [{"slice": {"keygen": "md5", "store": "shared_mem"}, "args": _CSMOKE}]},
        {"fn": "cache_own_vectors", "tiers": ("thorough",), "slices": [{"keygen": k, "store": st, "pool": 4, "n": n} for (k, st) in
                                                 (("md5", "shared_mem"), ("hash", "shared_mem"), ("identity", "shared_mem"), ("md5", "in_memory")) for n in (0, 1, 2, 3, 4)],
         "tcond": 3000, "tpath": 10, "bound": "n<=4 texts over the 4-text pool (all-distinct pattern included), 16 prefill subsets, cache on/off"},
        {"fn": "cache_twin", "expect": "counterexample", "slices": [{}], "tcond": 60, "tpath": 10, "bound": "twin"},
        {"fn": "batching_own_vectors", "tiers": ("quick",), "slices": [{"clients": 3, "max_batch": b, "hold": h, "dmax": 2, "lmax": 3} for b in (1, 2, 3) for h in (1, 2)],
         "tcond": 600, "tpath": 20, "bound": "3 clients, delays 0..2, latency 0..3 ticks", "smoke": [{"slice": {"clients": 4, "max_batch": 2, "hold": 1}, "args": _BSMOKE}]},
        {"fn": "batching_own_vectors", "tiers": ("thorough",), "slices": [{"clients": 4, "max_batch": b, "hold": h} for b in (1, 2, 3) for h in (1, 2)] + [{"clients": 3, "max_batch": b, "hold": h, "dmax": 3, "lmax": 3} for b in (1, 2, 3) for h in (1, 2, 3)],
         "tcond": 3000, "tpath": 20, "bound": "4 clients, delays 0..2, latency 0..2; 3 clients delays 0..3 latency 0..3 hold 1..3"},
        {"fn": "batching_percall", "tiers": ("thorough",), "slices": [{"max_batch": 2, "hold": 1, "gmax": 3}, {"max_batch": 2, "hold": 2, "gmax": 2}, {"max_batch": 1, "hold": 1, "gmax": 2}],
         "tcond": 3000, "tpath": 20, "bound": "4 clients, inter-arrival gaps 0..3 (0..2 for two of the three configurations), per-call model latency in {0,1,3} for the first three calls",
         "smoke": [{"slice": {"max_batch": 2, "hold": 1}, "args": dict(g1=2, g2=2, g3=0, l0=0, l1=2, l2=1)}]},
        {"fn": "batching_twin", "expect": "counterexample", "slices": [{"clients": 3, "max_batch": 2, "hold": 2}], "tcond": 120, "tpath": 20, "bound": "twin"},
    ],
}
