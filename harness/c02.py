"""C02 - output rails gate every LLM-generated bot message, in every turn.

Real code: LLMRails.generate_async over several turns (events_history_cache / v2 state carried between turns), llm_flows.co `process bot message` / `run output rails`,
LLMGenerationActions.generate_bot_message ($skip_output_rails for predefined messages), RuntimeV1_0; Colang 2.x: library/guardrails.co `_bot_say` / `run output rails`
($output_rails_in_progress), RuntimeV2_x.process_events, run_to_completion.
"""
from harness import rails
from harness.common import conc, sl
from vlib import stubs

FUNCTIONS = [
    "nemoguardrails.rails.llm.llmrails.LLMRails.generate_async / _get_events_for_messages (events_history_cache)",
    "nemoguardrails/rails/llm/llm_flows.co: process bot message, run output rails, generate bot message",
    "nemoguardrails.actions.llm.generation.LLMGenerationActions.generate_bot_message (skip_output_rails)",
    "nemoguardrails.colang.v1_0.runtime.runtime.RuntimeV1_0.generate_events; flows.compute_next_steps",
    "nemoguardrails/colang/v2_x/library/guardrails.co: _bot_say, run output rails ($output_rails_in_progress)",
    "nemoguardrails.colang.v2_x.runtime.runtime.RuntimeV2_x.process_events; statemachine.run_to_completion",
]
LAST_INFO = None
N = int(sl("n", 1))
EXC = int(sl("exc", 0))
VER = sl("ver", "1.0")
TURNS = int(sl("turns", 2))
FIX = sl("fix", {})
SHIPPED = int(sl("shipped", 0))  # 1: the output rail is the shipped library flow `self check output` (its LLM-calling action replaced by a recording action)
SHIPPED_REFUSAL = "I'm sorry, I can't respond to that."
SHIPPED_EXC = "blocked by the 'self check output' flow"
if SHIPPED:
    N = 1
    from nemoguardrails.rails.llm import config as _cfgmod
    import os as _os

    _root = _os.environ.get("VERIF_REPO", "/repo")
    if _root not in _cfgmod.colang_path_dirs:
        _cfgmod.colang_path_dirs.append(_root)  # lets `import nemoguardrails.library...` resolve in Colang 2.x


def _fixed(**kw):
    for k, v in kw.items():
        if k in FIX and v != FIX[k]:
            return False
    return True


def _out_v1(i):
    if EXC:
        refuse = '    create event OutputRailException(message="blocked by out %d")' % i
    else:
        refuse = "    bot refuse out %d" % i
    return '''
define bot refuse out %d
  "REFUSED_OUT%d"

define subflow out %d
  $v = execute out%d(text=$bot_message)
  if $v == "reject"
%s
    stop
  if $v != "accept"
    $bot_message = $v
''' % (i, i, i, i, refuse)


COLANG_V1 = '''
define user express greeting
  "hello"

define bot express greeting
  "Hello there!"

define flow greeting
  user express greeting
  bot express greeting

define user ask value
  "give me a value"

define flow value
  user ask value
  # Produce a short answer for the user.
  $answer = ...
  bot $answer
''' + "".join(_out_v1(i) for i in range(1, N + 1))
YAML_V1 = "enable_rails_exceptions: %s\nrails:\n  output:\n    flows:\n" % ("True" if EXC else "False") + "".join("      - out %d\n" % i for i in range(1, N + 1))
if SHIPPED:
    COLANG_V1 = COLANG_V1.split("define bot refuse out")[0]
    YAML_V1 = ("enable_rails_exceptions: %s\nprompts:\n  - task: self_check_output\n    content: check {{ bot_response }}\nrails:\n  output:\n    flows:\n      - self check output\n"
               % ("True" if EXC else "False"))


W = ["zero", "one", "two", "three"]


def _out_v2(i):
    if EXC:
        refuse = '    send OutputRailException(message="blocked by out %d")' % i
    else:
        refuse = '    bot say "REFUSED_OUT%d"' % i
    return '''
flow out %s $text
  $ok = await Out%dAction(text=$text)
  if not $ok
%s
    abort
''' % (W[i], i, refuse)


COLANG_V2 = '''
import core
import guardrails

flow output rails $output_text
''' + "".join("  out %s $output_text\n" % W[i] for i in range(1, N + 1)) + "".join(_out_v2(i) for i in range(1, N + 1)) + '''
flow main
  activate answering

flow answering
  user said something as $u
  $reply = await ProduceReplyAction()
  bot say $reply
'''


if SHIPPED:
    COLANG_V2 = '''
import core
import guardrails
import nemoguardrails.library.self_check.output_check

flow output rails $output_text
  self check output

flow main
  activate answering

flow answering
  user said something as $u
  $reply = await ProduceReplyAction()
  bot say $reply
'''


V2PROG = sl("v2prog", "plain")
if V2PROG == "events" and not SHIPPED:
    # input rails as well, and a bot message that is triggered by a non-user event
    COLANG_V2 = '''
import core
import guardrails

flow input rails $input_text
  $ok = await In1Action(text=$input_text)
  if not $ok
    bot say "REFUSED_IN"
    abort

flow output rails $output_text
  out one $output_text
''' + _out_v2(1) + '''
flow main
  activate answering
  activate proactive

flow answering
  user said something as $u
  $reply = await ProduceReplyAction()
  bot say $reply

flow proactive
  match ProactiveTrigger()
  $reply = await ProduceReplyAction()
  bot say $reply
'''


class Rec:
    log = []
    verdicts = []
    in_verdicts = []
    turn = 0
    replies = []


async def _shipped_check(context=None, **kw):
    """Replaces the LLM-calling action of the shipped rail; sees the text through the context like the original."""
    Rec.log.append(("out1", (context or {}).get("bot_message")))
    v = conc(Rec.verdicts[Rec.turn][0], 0, 1)
    return v == 0


def _refusal(i):
    return SHIPPED_REFUSAL if SHIPPED else "REFUSED_OUT%d" % i


def _exc_marker(i):
    return SHIPPED_EXC if SHIPPED else "out %d" % i


def _mk_v1(i):
    async def out(text=None, **kw):
        Rec.log.append(("out%d" % i, text))
        v = conc(Rec.verdicts[Rec.turn][i - 1], 0, 2)
        if v == 0:
            return "accept"
        if v == 1:
            return "reject"
        return "REWRITTEN_OUT%d" % i

    return out


def _mk_v2(i):
    async def out(text=None, **kw):
        if V2PROG == "events" and str(text).startswith("REFUSED"):
            return True  # the input rail's own refusal also passes through `bot say`; the verdict under test is about the LLM text
        Rec.log.append(("out%d" % i, text))
        v = conc(Rec.verdicts[Rec.turn][i - 1], 0, 1)
        return v == 0

    return out


async def _in1(text=None, **kw):
    Rec.log.append(("in1", text))
    v = conc(Rec.in_verdicts[Rec.turn], 0, 1)
    return v == 0


async def _produce_reply(**kw):
    """Stands for the LLM in the Colang 2.x programs: the text the bot is about to say in this turn."""
    return "LLM text %d" % (Rec.turn + 1)


if VER == "1.0":
    APP, LLM = rails.build(COLANG_V1, YAML_V1, {"self_check_output": _shipped_check} if SHIPPED else {"out%d" % i: _mk_v1(i) for i in range(1, N + 1)})
else:
    acts = {"self_check_output": _shipped_check} if SHIPPED else {"Out%dAction" % i: _mk_v2(i) for i in range(1, N + 1)}
    acts["ProduceReplyAction"] = _produce_reply
    acts["In1Action"] = _in1
    _y2 = "enable_rails_exceptions: %s\n" % ("True" if EXC else "False")
    if SHIPPED:
        _y2 += "prompts:\n  - task: self_check_output\n    content: check {{ bot_response }}\n"
    APP, LLM = rails.build(COLANG_V2, _y2, acts, colang_version="2.x")
    rails.install_handover()

USER = ["hello", "tell me something", "give me a value"]


def _script(tid, t):
    if tid == 0:
        return ["  express greeting"]
    if tid == 1:
        return ["  ask question", "  bot respond", '  "%s"' % _llm_text(t)]
    return ["  ask value", '"%s"' % _llm_text(t)]  # the value generated for `$answer = ...` is uttered with `bot $answer`


def _llm_text(t):
    return "LLM says hi %d" % (t + 1)


def checked_v1(t0: int, a0: int, a1: int, t1: int, b0: int, b1: int, t2: int, c0: int, c1: int) -> bool:
    """
    Colang 1.0, TURNS turns. Per turn: text selector (0 predefined bot message, 1 LLM-generated bot message) and one verdict per output rail (0 accept, 1 reject, 2 rewrite).
    pre: 0 <= t0 <= 1 and 0 <= a0 <= 2 and 0 <= a1 <= 2 and 0 <= t1 <= 1 and 0 <= b0 <= 2 and 0 <= b1 <= 2 and 0 <= t2 <= 1 and 0 <= c0 <= 2 and 0 <= c1 <= 2
    pre: (N > 1 or (a1 == 0 and b1 == 0 and c1 == 0)) and (TURNS > 2 or (t2 == 0 and c0 == 0 and c1 == 0))
    pre: _fixed(t0=t0, a0=a0, t1=t1)
    pre: not SHIPPED or (a0 <= 1 and b0 <= 1 and c0 <= 1)
    post: _
    """
    global LAST_INFO
    stubs.reset()
    rails.reset_app(APP)
    Rec.verdicts = [[a0, a1][:N], [b0, b1][:N], [c0, c1][:N]]
    messages = []
    why = None
    info = []
    for t in range(TURNS):
        Rec.turn = t
        Rec.log = []
        tid = conc([t0, t1, t2][t], 0, 1)
        LLM.reset(script=["  express greeting"] if tid == 0 else ["  ask question", "  bot respond", '  "%s"' % _llm_text(t)])
        messages = messages + [{"role": "user", "content": USER[tid]}]
        try:
            reply = rails.generate(APP, messages)
        except rails.Escaped as e:
            why = "turn %d: generate raised %s" % (t + 1, e)
            break
        v = Rec.verdicts[t]
        ran = list(Rec.log)
        if tid == 0:
            if reply != {"role": "assistant", "content": "Hello there!"}:
                why = "predefined message not delivered: %r" % (reply,)
        else:
            k = N
            for i in range(N):
                if v[i] == 1:
                    k = i
                    break
            want_n = min(k + 1, N)
            cur = _llm_text(t)
            if [e[0] for e in ran] != ["out%d" % (i + 1) for i in range(want_n)]:
                why = "output rails ran %s on an LLM-generated message, expected the first %d in order" % ([e[0] for e in ran], want_n)
            else:
                for i in range(want_n):
                    if ran[i][1] != cur:
                        why = "out%d saw %r, expected %r" % (i + 1, ran[i][1], cur)
                        break
                    if v[i] == 2:
                        cur = "REWRITTEN_OUT%d" % (i + 1)
            if why is None:
                if k < N:
                    if _llm_text(t) in str(reply.get("content")):
                        why = "rejected LLM text appears in the response"
                    elif EXC:
                        if reply.get("role") != "exception" or _exc_marker(k + 1) not in str(reply.get("content")):
                            why = "expected the rail exception of out %d, got %r" % (k + 1, reply)
                    elif reply != {"role": "assistant", "content": _refusal(k + 1)}:
                        why = "expected the refusal of out %d, got %r" % (k + 1, reply)
                elif reply != {"role": "assistant", "content": cur}:
                    why = "expected %r, got %r" % (cur, reply)
        if not rails.is_tracing():
            info.append({"user": USER[tid], "verdicts": [int(x) for x in v], "reply": reply, "rails": ran})
        if why:
            why = "turn %d: %s" % (t + 1, why)
            break
        messages = messages + [reply if reply.get("role") == "assistant" else {"role": "assistant", "content": "(blocked)"}]
    if not rails.is_tracing():
        LAST_INFO = {"turns": info, "why": why}
    return why is None


def checked_v2(a0: int, a1: int, b0: int, b1: int, c0: int, c1: int) -> bool:
    """
    Colang 2.x + guardrails library, TURNS turns on one conversation state: every turn's bot text goes through all output rails in order (0 accept, 1 reject).
    pre: 0 <= a0 <= 1 and 0 <= a1 <= 1 and 0 <= b0 <= 1 and 0 <= b1 <= 1 and 0 <= c0 <= 1 and 0 <= c1 <= 1
    pre: (N > 1 or (a1 == 0 and b1 == 0 and c1 == 0)) and (TURNS > 2 or (c0 == 0 and c1 == 0))
    pre: _fixed(a0=a0, b0=b0)
    post: _
    """
    global LAST_INFO
    stubs.reset()
    rails.reset_app(APP)
    Rec.verdicts = [[a0, a1][:N], [b0, b1][:N], [c0, c1][:N]]
    LLM.reset(script=[])
    state = None
    why = None
    info = []
    for t in range(TURNS):
        Rec.turn = t
        Rec.log = []
        try:
            res = rails.generate(APP, [{"role": "user", "content": "hi %d" % t}], state=({} if state is None else state))
        except rails.Escaped as e:
            why = "turn %d: generate raised %s" % (t + 1, e)
            break
        state = res.state
        texts = [m.get("content") for m in res.response]
        v = Rec.verdicts[t]
        k = N
        for i in range(N):
            if v[i] == 1:
                k = i
                break
        want_n = min(k + 1, N)
        text = "LLM text %d" % (t + 1)
        ran = list(Rec.log)
        if [e[0] for e in ran] != ["out%d" % (i + 1) for i in range(want_n)] or [e[1] for e in ran] != [text] * want_n:
            why = "output rails ran %s, expected the first %d on %r" % (ran, want_n, text)
        elif k < N:
            if any(text in str(x) for x in texts):
                why = "rejected text appears in the response"
            elif EXC:
                excs = [e for m in res.response for e in (m.get("events") or []) if str(e.get("type", "")).endswith("Exception")]
                if len(excs) != 1 or _exc_marker(k + 1) not in str(excs[0].get("message")):
                    why = "expected the rail exception of out %d, got %r" % (k + 1, res.response)
            elif texts != [_refusal(k + 1)]:
                why = "expected the refusal of out %d, got %r" % (k + 1, res.response)
        elif texts != [text]:
            why = "expected %r, got %r" % (text, res.response)
        if not rails.is_tracing():
            info.append({"verdicts": [int(x) for x in v], "response": res.response, "rails": ran})
        if why:
            why = "turn %d: %s" % (t + 1, why)
            break
    if not rails.is_tracing():
        LAST_INFO = {"turns": info, "why": why}
    return why is None


def checked_v2_events(k0: int, i0: int, a0: int, k1: int, i1: int, b0: int, k2: int, i2: int, c0: int) -> bool:
    """
    Colang 2.x + guardrails library with input and output rails; per turn the bot text is triggered by a user message (k=0; input rail verdict i) or by a
    non-user event (k=1); whatever happened in earlier turns (in particular a rejected input), every LLM text goes through the output rail.
    pre: 0 <= k0 <= 1 and 0 <= i0 <= 1 and 0 <= a0 <= 1 and 0 <= k1 <= 1 and 0 <= i1 <= 1 and 0 <= b0 <= 1 and 0 <= k2 <= 1 and 0 <= i2 <= 1 and 0 <= c0 <= 1
    pre: TURNS > 2 or (k2 == 0 and i2 == 0 and c0 == 0)
    pre: _fixed(k0=k0, i0=i0, k1=k1)
    post: _
    """
    global LAST_INFO
    stubs.reset()
    rails.reset_app(APP)
    Rec.verdicts = [[a0], [b0], [c0]]
    Rec.in_verdicts = [i0, i1, i2]
    LLM.reset(script=[])
    state = None
    why = None
    info = []
    for t in range(TURNS):
        Rec.turn = t
        Rec.log = []
        kind = conc([k0, k1, k2][t], 0, 1)
        msg = {"role": "user", "content": "hi %d" % t} if kind == 0 else {"role": "event", "event": {"type": "ProactiveTrigger"}}
        try:
            res = rails.generate(APP, [msg], state=({} if state is None else state))
        except rails.Escaped as e:
            why = "turn %d: generate raised %s" % (t + 1, e)
            break
        state = res.state
        texts = [m.get("content") for m in res.response]
        text = "LLM text %d" % (t + 1)
        ran = list(Rec.log)
        want = []
        if kind == 0:
            want.append(("in1", "hi %d" % t))
        if kind == 0 and Rec.in_verdicts[t] == 1:
            expect = ["REFUSED_IN"]
        else:
            want.append(("out1", text))
            expect = [text] if Rec.verdicts[t][0] == 0 else [_refusal(1)]
        if [tuple(e) for e in ran] != want:
            why = "rail actions %r, expected %r" % (ran, want)
        elif texts != expect:
            why = "response %r, expected %r" % (res.response, expect)
        if not rails.is_tracing():
            info.append({"kind": "user" if kind == 0 else "event", "input_verdict": int(Rec.in_verdicts[t]), "output_verdict": int(Rec.verdicts[t][0]), "response": res.response, "rails": ran})
        if why:
            why = "turn %d: %s" % (t + 1, why)
            break
    if not rails.is_tracing():
        LAST_INFO = {"turns": info, "why": why}
    return why is None


CARRY = sl("carry", "state")  # how the second call continues the conversation: explicit `state`, or the message history (events cache of the instance)


def checked_v1_state(o0: int, t0: int, a0: int, o1: int, t1: int, b0: int) -> bool:
    """
    Colang 1.0, two calls of one conversation continued through the explicit `state` (or, slice carry=messages, by re-sending the message history);
    per call the output rails may be disabled by the generation options (o=1); the bot text is predefined (t=0), LLM-generated (t=1) or an LLM-generated
    value uttered with `bot $answer` (t=2). A call with output rails enabled checks its LLM text whatever the earlier call did.
    pre: 0 <= o0 <= 1 and 0 <= t0 <= 2 and 0 <= a0 <= 2 and 0 <= o1 <= 1 and 0 <= t1 <= 2 and 0 <= b0 <= 2
    pre: not SHIPPED
    pre: _fixed(o0=o0, t0=t0, o1=o1, t1=t1, a0=a0)
    post: _
    """
    global LAST_INFO
    stubs.reset()
    rails.reset_app(APP)
    Rec.verdicts = [[a0], [b0]]
    state = None
    why = None
    info = []
    history = []
    for t in range(2):
        Rec.turn = t
        Rec.log = []
        tid = conc([t0, t1][t], 0, 2)
        off = conc([o0, o1][t], 0, 1)
        LLM.reset(script=_script(tid, t))
        kw = {"options": {"rails": ["input", "dialog", "retrieval"]}} if off else {}
        try:
            if CARRY == "state":
                res = rails.generate(APP, [{"role": "user", "content": USER[tid]}], state=({} if state is None else state), **kw)
            else:
                history = history + [{"role": "user", "content": USER[tid]}]
                res = rails.generate(APP, history, options=kw.get("options", {"log": {"activated_rails": True}}))
                history = history + [res.response[0] if res.response[0].get("role") == "assistant" else {"role": "assistant", "content": "(blocked)"}]
        except rails.Escaped as e:
            why = "call %d: generate raised %s" % (t + 1, e)
            break
        state = res.state
        v = Rec.verdicts[t][0]
        raw = "Hello there!" if tid == 0 else _llm_text(t)
        ran = [tuple(e) for e in Rec.log]
        if tid >= 1 and not off:
            want_ran = [("out1", raw)]
            expect = raw if v == 0 else (_refusal(1) if v == 1 else "REWRITTEN_OUT1")
        else:
            want_ran = []
            expect = raw
            if tid == 0 and not off:
                ran = []  # whether predefined messages are passed to the output rails is not fixed by the property
        if ran != want_ran:
            why = "output rail invocations %r, expected %r" % (ran, want_ran)
        elif EXC and tid >= 1 and not off and v == 1:
            if res.response[0].get("role") != "exception":
                why = "expected the rail exception, got %r" % (res.response,)
        elif res.response != [{"role": "assistant", "content": expect}]:
            why = "response %r, expected %r" % (res.response, expect)
        if not rails.is_tracing():
            info.append({"user": USER[tid], "output_rails_disabled": bool(off), "verdict": int(v), "response": res.response, "rails": list(Rec.log)})
        if why:
            why = "call %d: %s" % (t + 1, why)
            break
    if not rails.is_tracing():
        LAST_INFO = {"calls": info, "why": why}
    return why is None


def later_turn_twin(t0: int, a0: int, a1: int, t1: int, b0: int, b1: int, t2: int, c0: int, c1: int) -> bool:
    """
    Twin: claims turn 2's output rail is never invoked (must be refuted).
    pre: 0 <= t0 <= 1 and 0 <= a0 <= 2 and a1 == 0 and 0 <= t1 <= 1 and 0 <= b0 <= 2 and b1 == 0 and t2 == 0 and c0 == 0 and c1 == 0
    post: _
    """
    stubs.reset()
    rails.reset_app(APP)
    Rec.verdicts = [[a0, a1][:N], [b0, b1][:N]]
    messages = []
    for t in range(2):
        Rec.turn = t
        Rec.log = []
        tid = conc([t0, t1][t], 0, 1)
        LLM.reset(script=["  express greeting"] if tid == 0 else ["  ask question", "  bot respond", '  "%s"' % _llm_text(t)])
        messages = messages + [{"role": "user", "content": USER[tid]}]
        reply = rails.generate(APP, messages)
        messages = messages + [reply if reply.get("role") == "assistant" else {"role": "assistant", "content": "(blocked)"}]
    return len(Rec.log) == 0


SPEC = {
    "property": "C02",
    "functions": FUNCTIONS,
    "bounds": "Colang 1.0: 1 (thorough 2) output rails with symbolic verdicts accept/reject/rewrite, per turn a symbolic choice between a predefined bot message and an LLM-generated one, "
              "2 (thorough 3) turns of one conversation with independent verdicts per turn, refusal by bot message or rail exception; plus the shipped `self check output` flows (v1 and v2) with their action replaced. Colang 2.x + library/guardrails.co: 1 (thorough 2) output "
              "rails accept/reject, 2 (thorough 3) turns on one conversation state.",
    "outside": "bot text is a concrete marker per turn; library rails other than `self check output` (gotitai, hallucination, fact checking have the same flow shape); LLM-based rails are represented by actions with the same flow shape; longer conversations; streaming",
    "assumptions": ["FakeLLM / StubVec / VLoop as in C01", "v2: `handover` stub passes the State object between turns by reference; the turn's bot text comes from a stub action standing for the LLM"],
    "explanation": "Oracle per turn: for an LLM-generated message the output rails invoked are exactly 1..k+1 in order on the (progressively rewritten) text; the reply is the final text, or the refusal / rail "
                   "exception of the rejecting rail, and never contains a rejected text; this must hold in every turn whatever the earlier turns' verdicts were.",
    "conditions": [
        {"fn": "checked_v1_state", "tiers": ("quick", "thorough"), "slices": [{"n": 1, "exc": 0, "ver": "1.0", "turns": 2, "fix": {"o0": o, "t0": t, "o1": 0, "t1": t1, "a0": a}} for o in (0, 1) for t in (0, 1) for t1 in (0, 1) for a in (0, 1)
                    if (a == 0 or (o == 0 and t == 1)) and not (t1 == 0 and o == 0)]
                   + [{"n": 1, "exc": 0, "ver": "1.0", "turns": 2, "fix": {"o0": 0, "t0": 2, "o1": 0, "t1": 2, "a0": a}} for a in (0, 1)]
                   + [{"n": 1, "exc": 0, "ver": "1.0", "turns": 2, "carry": "messages", "fix": {"o0": 1, "t0": t, "o1": 0, "t1": 1, "a0": 0}} for t in (0, 1)], "tcond": 900, "tpath": 120,
         "bound": "v1, 2 calls continued through `state`, output rails disabled by options in the first call or not",
         "smoke": [{"slice": {"n": 1, "exc": 0, "ver": "1.0", "turns": 2}, "args": dict(o0=1, t0=0, a0=0, o1=0, t1=1, b0=1)}]},
        {"fn": "checked_v2_events", "tiers": ("quick", "thorough"), "slices": [{"n": 1, "exc": 0, "ver": "2.x", "turns": 2, "v2prog": "events", "fix": {"k0": k, "i0": i, "k1": k1}} for k in (0, 1) for i in (0, 1) for k1 in (0, 1) if not (k == 1 and i == 1)],
         "tcond": 900, "tpath": 180, "bound": "v2 with input and output rails, user- and event-triggered bot messages, 2 turns",
         "smoke": [{"slice": {"n": 1, "exc": 0, "ver": "2.x", "turns": 3, "v2prog": "events"}, "args": dict(k0=0, i0=1, a0=0, k1=1, i1=0, b0=1, k2=0, i2=0, c0=0)}]},
        {"fn": "checked_v1", "tiers": ("quick",), "slices": [{"n": 1, "exc": e, "ver": "1.0", "turns": 2, "fix": {"t0": t, "a0": a, "t1": t1}} for e in (0, 1) for t in (0, 1) for a in (0, 1, 2) for t1 in (0, 1) if not (t == 0 and a > 0) and not (e == 1 and not (t == 1 and a == 1)) and not (t1 == 0 and not (t == 1 and a == 1))],
         "tcond": 900, "tpath": 120, "bound": "v1, 1 rail, 2 turns",
         "smoke": [{"slice": {"n": 2, "exc": 0, "ver": "1.0", "turns": 3}, "args": dict(t0=1, a0=1, a1=0, t1=0, b0=0, b1=0, t2=1, c0=2, c1=1)},
                   {"slice": {"n": 1, "exc": 1, "ver": "1.0", "turns": 3}, "args": dict(t0=1, a0=1, a1=0, t1=1, b0=0, b1=0, t2=1, c0=2, c1=0)}]},
        {"fn": "checked_v1", "tiers": ("thorough",), "slices": [{"n": 2, "exc": 0, "ver": "1.0", "turns": 2, "fix": {"t0": t, "a0": a, "t1": t1}} for t in (0, 1) for a in (0, 1, 2) for t1 in (0, 1) if not (t == 0 and a > 0)]
            + [{"n": 1, "exc": e, "ver": "1.0", "turns": 3, "fix": {"t0": t, "a0": a, "t1": t1}} for e in (0, 1) for t in (0, 1) for a in (0, 1, 2) for t1 in (0, 1) if not (t == 0 and a > 0) and not (e == 1 and a != 1)],
         "tcond": 3000, "tpath": 180, "bound": "v1, 2 rails x 2 turns; 1 rail x 3 turns"},
        {"fn": "checked_v1", "tiers": ("quick", "thorough"), "slices": [{"n": 1, "exc": e, "ver": "1.0", "turns": 2, "shipped": 1, "fix": {"t0": 1, "a0": a, "t1": 1}} for e in (0, 1) for a in (0, 1)],
         "tcond": 900, "tpath": 120, "bound": "v1, shipped `self check output` flow (action stubbed), 2 LLM-generated turns"},
        {"fn": "checked_v2", "tiers": ("quick", "thorough"), "slices": [{"n": 1, "exc": e, "ver": "2.x", "turns": 2, "shipped": 1, "fix": {"a0": a}} for e in (0, 1) for a in (0, 1)],
         "tcond": 900, "tpath": 180, "bound": "v2, shipped `self check output` flow (action stubbed), 2 turns"},
        {"fn": "checked_v2", "tiers": ("quick",), "slices": [{"n": 1, "exc": 0, "ver": "2.x", "turns": 2, "fix": {"a0": a}} for a in (0, 1)], "tcond": 900, "tpath": 180, "bound": "v2, 1 rail, 2 turns",
         "smoke": [{"slice": {"n": 1, "exc": 0, "ver": "2.x", "turns": 3}, "args": dict(a0=1, a1=0, b0=0, b1=0, c0=1, c1=0)},
                   {"slice": {"n": 2, "exc": 1, "ver": "2.x", "turns": 2}, "args": dict(a0=0, a1=1, b0=0, b1=0, c0=0, c1=0)}]},
        {"fn": "checked_v2", "tiers": ("thorough",), "slices": [{"n": 2, "exc": e, "ver": "2.x", "turns": 2, "fix": {"a0": a, "b0": b}} for e in (0, 1) for a in (0, 1) for b in (0, 1)]
            + [{"n": 1, "exc": e, "ver": "2.x", "turns": 3, "fix": {"a0": a, "b0": b}} for e in (0, 1) for a in (0, 1) for b in (0, 1)], "tcond": 3000, "tpath": 240, "bound": "v2, 2 rails x 2 turns; 1 rail x 3 turns"},
        {"fn": "later_turn_twin", "expect": "counterexample", "slices": [{"n": 1, "exc": 0, "ver": "1.0", "turns": 2}], "tcond": 900, "tpath": 120, "bound": "twin"},
    ],
}
