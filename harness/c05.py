"""C05 - competing flows: exactly one most-specific action wins per interaction loop.

Real code: run_to_completion incl. _resolve_action_conflicts, _abort_flow, _compute_event_matching_score,
get_event_from_element, Event.is_equal, slide (Priority, if/else, Assignment), eval_expression.
"""
from harness import v2
from harness.common import conc, sl
from vlib import stubs

FUNCTIONS = [
    "nemoguardrails.colang.v2_x.runtime.statemachine.run_to_completion",
    "nemoguardrails.colang.v2_x.runtime.statemachine._resolve_action_conflicts",
    "nemoguardrails.colang.v2_x.runtime.statemachine._compute_event_matching_score / _compute_arguments_dict_matching_score",
    "nemoguardrails.colang.v2_x.runtime.statemachine._abort_flow",
    "nemoguardrails.colang.v2_x.runtime.statemachine.slide (Priority, If, Assignment)",
    "nemoguardrails.colang.v2_x.runtime.eval.eval_expression",
]
LAST_INFO = None

PATTERNS = ["match Go()", "match Go(a=1)", "match Go(a=1, b=2)", "match Go(a=2)"]
NPARAMS = [0, 1, 2, 1]


def program(spec, loops):
    """spec: tuple of pattern ids per competitor; loops: tuple of loop names (None = parent's loop)."""
    out = []
    for i, s in enumerate(spec):
        if loops[i] and not loops[i].startswith("W"):
            out.append('@loop("%s")' % loops[i])
        out.append("flow c%d $p $act" % i)
        out.append("  priority $p")
        out.append("  " + PATTERNS[s])
        out.append("  if $act == 0")
        out.append("    send A()")
        out.append("  elif $act == 1")
        out.append("    send B()")
        out.append("  else")
        out.append('    start UtteranceBotAction(script="x")')
        out.append("  $done = True")
        out.append("  match Never()")
        out.append("")
    worker = bool(loops[0]) and loops[0].startswith("W")
    if worker:
        out.append('@loop("NEW")')
        out.append("flow worker $k $p $act")
        for i in range(len(spec)):
            out.append("  %s $k == %d" % ("if" if i == 0 else "elif", i))
            out.append("    start c%d $p $act" % i)
        out.append("  match Never()")
        out.append("")
    out.append("flow main")
    out.append("  match Init() as $i")
    for i in range(len(spec)):
        if worker:
            out.append("  start worker %d $i.p%d $i.a%d" % (i, i, i))
        else:
            out.append("  start c%d $i.p%d $i.a%d" % (i, i, i))
    out.append("  match Never()")
    return "\n".join(out) + "\n"


def _decode(code, n, base):
    out = []
    for _ in range(n):
        out.append(code % base)
        code //= base
    return tuple(out)


N = int(sl("n", 2))
PAT = _decode(int(sl("spec", 0)), N, 4)
LOOPV = int(sl("loops", 0))
LOOPS = {0: (None,) * N, 1: (None, "L1", None, None)[:N], 2: ("L0", "L1", "L2", "L3")[:N], 3: (None, "L1", "L1", None)[:N],
         4: ("W0", "W1", "W2", "W3")[:N]}[LOOPV]  # 4: undecorated competitors, each started by its own instance of a @loop("NEW") worker
EVENT_NAMES = {0: ["A"], 1: ["B"], 2: ["StartUtteranceBotAction"]}


def _fits(s, ea, eb, has_b):
    if s == 0:
        return True
    if s == 1:
        return ea == 1
    if s == 2:
        return ea == 1 and has_b and eb == 2
    return ea == 2


def _run(ps, acts, ea, eb, has_b, extra, choices):
    stubs.reset()
    stubs.set_choices(choices)
    # The competitors are started and parked on their match statement natively (nothing symbolic is involved yet) ...
    with v2.untraced():
        st = v2.new_state(program(PAT, LOOPS))
        v2.start(st)
        init = {"type": "Init"}
        for i in range(N):
            init["p%d" % i] = 1.0
            init["a%d" % i] = 0
        v2.run_to_completion(st, init)
    # ... then their priority and action selector are set to the symbolic values directly in the flow state
    for i in range(N):
        fs = st.flow_id_states["c%d" % i][0]
        fs.priority = ps[i]
        fs.context["act"] = acts[i]
    ev = {"type": "Go", "a": ea}
    nargs = 1
    if has_b:
        ev["b"] = eb
        nargs += 1
    if extra:
        ev["zz"] = 5
        nargs += 1
    v2.run_to_completion(st, ev)
    return st, nargs


def _observe(st):
    """per competitor: 'advanced' / 'stopped' / 'untouched'"""
    res = []
    for i in range(N):
        insts = st.flow_id_states.get("c%d" % i, [])
        if len(insts) != 1:
            res.append("bad-instances-%d" % len(insts))
            continue
        fs = insts[0]
        if fs.status in (v2.FlowStatus.STOPPED, v2.FlowStatus.STOPPING):
            res.append("stopped")
        elif fs.context.get("done") is True:
            res.append("advanced")
        else:
            res.append("untouched")
    return res


PRIOS = [0.5, 1.0, 0.45, 0.25]
PMAX = int(sl("pmax", 3))
EXTRA_FIX = sl("extra")  # 0.45 = 0.9 * 0.5: ties across different specificities become reachable


def _prio(k):
    return PRIOS[conc(k, 0, 3)]


def _in_range(ps, acts, ea, eb):
    for p in ps:
        if not (0 <= p <= PMAX):
            return False
    for a in acts:
        if not (0 <= a <= 2):
            return False
    return 0 <= ea <= 2 and 0 <= eb <= 2


def _oracle(ps, acts, ea, eb, has_b, nargs, obs, outs):
    """For every loop group: the observation must be explained by SOME winner in the set W of maximal score."""
    groups = {}
    for i in range(N):
        key = LOOPS[i] if LOOPS[i] else "_parent"
        groups.setdefault(key, []).append(i)
    expected_events = []
    for key, members in groups.items():
        fit = [i for i in members if _fits(PAT[i], ea, eb, has_b)]
        for i in members:
            if i not in fit and obs[i] != "untouched":
                return False
        if not fit:
            continue
        scores = {i: (0.9 ** (nargs - NPARAMS[PAT[i]])) * ps[i] for i in fit}
        best = None
        for i in fit:
            if best is None or scores[i] > best:
                best = scores[i]
        winners = [i for i in fit if scores[i] == best]
        explained = False
        for w in winners:
            ok = True
            for i in fit:
                want = "advanced" if acts[i] == acts[w] else "stopped"
                if obs[i] != want:
                    ok = False
            if ok:
                explained = True
                expected_events.append(acts[w])
                break
        if not explained:
            return False
    # exactly one action event per loop group that had a fitting flow, of the winner's kind
    got = sorted(n for n in outs if n in ("A", "B", "StartUtteranceBotAction"))
    want = sorted(EVENT_NAMES[0 if a == 0 else (1 if a == 1 else 2)][0] for a in expected_events)
    return got == want


def conflict2(p0: int, p1: int, a0: int, a1: int, ea: int, eb: int, has_b: bool, extra: bool, c0: int) -> bool:
    """
    Two competitors (specificity/loops from the slice): priorities from {0.25, 0.5, 1.0, 0.45}, actions, payload, tie-break symbolic.
    pre: _in_range([p0, p1], [a0, a1], ea, eb) and 0 <= c0 <= 1
    pre: EXTRA_FIX is None or extra == bool(EXTRA_FIX)
    post: _
    """
    global LAST_INFO
    p0, p1 = _prio(p0), _prio(p1)
    st, nargs = _run([p0, p1], [a0, a1], ea, eb, has_b, extra, [c0, c0])
    obs = _observe(st)
    outs = v2.out_names(st)
    ok = _oracle([p0, p1], [a0, a1], ea, eb, has_b, nargs, obs, outs)
    if not v2.is_tracing():
        LAST_INFO = {"program": program(PAT, LOOPS), "priorities": [p0, p1], "actions": [a0, a1], "event": {"a": ea, "b": eb if has_b else None, "extra": extra},
                     "observed": obs, "outgoing": outs}
    return ok


def conflict3(p0: int, p1: int, p2: int, a0: int, a1: int, a2: int, ea: int, eb: int, has_b: bool, c0: int, c1: int) -> bool:
    """
    Three competitors.
    pre: _in_range([p0, p1, p2], [a0, a1, a2], ea, eb) and 0 <= c0 <= 2 and 0 <= c1 <= 2
    post: _
    """
    global LAST_INFO
    p0, p1, p2 = _prio(p0), _prio(p1), _prio(p2)
    st, nargs = _run([p0, p1, p2], [a0, a1, a2], ea, eb, has_b, False, [c0, c1, c0])
    obs = _observe(st)
    outs = v2.out_names(st)
    ok = _oracle([p0, p1, p2], [a0, a1, a2], ea, eb, has_b, nargs, obs, outs)
    if not v2.is_tracing():
        LAST_INFO = {"program": program(PAT, LOOPS), "priorities": [p0, p1, p2], "actions": [a0, a1, a2], "event": {"a": ea, "b": eb if has_b else None},
                     "observed": obs, "outgoing": outs}
    return ok


def tie_twin(p0: int, p1: int, a0: int, a1: int, ea: int, eb: int, has_b: bool, extra: bool, c0: int) -> bool:
    """
    Twin (slice chooses which member): claims that in an exact tie with different actions competitor WHO never wins.
    pre: _in_range([p0, p1], [a0, a1], ea, eb) and 0 <= c0 <= 1
    post: _
    """
    p0, p1 = _prio(p0), _prio(p1)
    st, nargs = _run([p0, p1], [a0, a1], ea, eb, has_b, extra, [c0, c0])
    obs = _observe(st)
    who = int(sl("who", 0))
    return not (p0 == p1 and a0 != a1 and obs[who] == "advanced" and obs[1 - who] == "stopped")


def _spec_code(t):
    c = 0
    for s in reversed(t):
        c = c * 4 + s
    return c


_Q2 = [{"n": 2, "spec": _spec_code((s0, s1)), "loops": 0} for s0 in range(4) for s1 in range(4)]
_L2 = [{"n": 2, "spec": _spec_code(t), "loops": l} for t in ((0, 0), (1, 0), (1, 1), (2, 1)) for l in (1, 2)]
_L4 = [{"n": 2, "spec": _spec_code(t), "loops": 4} for t in ((0, 0), (1, 0))]
_T3 = [{"n": 3, "spec": _spec_code((s0, s1, s2)), "loops": 0} for s0 in range(4) for s1 in range(4) for s2 in range(4)]
_T3L = [{"n": 3, "spec": _spec_code(t), "loops": 3} for t in ((0, 0, 0), (1, 0, 1), (2, 1, 0), (1, 1, 2))]

SPEC = {
    "property": "C05",
    "functions": FUNCTIONS,
    "bounds": "2 competitors (quick) / 3 (thorough), every specificity vector over 4 patterns (Go(), Go(a=1), Go(a=1,b=2), Go(a=2)); priorities in {0.25, 0.45, 0.5, 1.0} (0.45 = 0.9*0.5 makes cross-specificity ties reachable)"
              "; actions per flow in {send A, send B, start UtteranceBotAction}; event payload a,b in 0..2, b present/absent, one extra parameter or none; "
              "loop assignments: all same loop, one flow in a named loop, every flow in its own loop, two of three sharing a named loop, every flow an undecorated child of its own instance of a @loop(\"NEW\") flow; tie-break outcomes symbolic",
    "outside": "more than 3 competitors; competing internal events; conflicts inside merged head groups (C07); other priority values",
    "assumptions": ["priorities are concrete floats selected by a symbolic index (symbolic reals cost ~5 s of solver time per path here)",
                    "observation = flow status + a flow-local marker variable set right after the competing action",
                    "the competitors are brought to their waiting match natively; priority and action selector are then written into the flow state by the harness (symbolic), so exactly the processing of the competing event is traced"],
    "explanation": "Oracle: per loop group, flows whose pattern fits form M; W = argmax 0.9^(#params-#mentioned)*priority; the observation must equal, for some w in W: "
                   "flows with an action identical to w's advanced, other members of M stopped, non-members untouched; exactly one action event per group.",
    "conditions": [
        {"fn": "conflict2", "tiers": ("quick",), "slices": [dict(x, pmax=2, extra=0) for x in _Q2 + _L2[:4] + _L4 if x["spec"] in (0, 1, 2, 3, 5, 6, 9, 10, 13, 15)], "tcond": 600, "tpath": 30,
         "bound": "n=2, 10 specificity vectors (one loop) + 2 loop variants; priorities {0.5,1.0,0.45}; no extra parameter",
         "smoke": [{"slice": {"n": 2, "spec": _spec_code((1, 0)), "loops": 0}, "args": dict(p0=2, p1=2, a0=0, a1=1, ea=1, eb=0, has_b=False, extra=False, c0=0)},
                   {"slice": {"n": 2, "spec": _spec_code((0, 0)), "loops": 0}, "args": dict(p0=1, p1=1, a0=2, a1=2, ea=0, eb=2, has_b=True, extra=True, c0=1)}]},
        {"fn": "conflict2", "tiers": ("thorough",), "slices": _Q2 + _L2 + _L4, "tcond": 1800, "tpath": 30, "bound": "n=2, all vectors + loop variants"},
        {"fn": "conflict3", "tiers": ("thorough",), "slices": _T3 + _T3L, "tcond": 3000, "tpath": 60, "bound": "n=3, all 64 specificity vectors + 4 loop variants"},
        {"fn": "tie_twin", "expect": "counterexample", "slices": [{"n": 2, "spec": 0, "loops": 0, "who": 0}, {"n": 2, "spec": 0, "loops": 0, "who": 1}], "tcond": 600, "tpath": 30,
         "bound": "each member of an exact tie wins for some tie-break outcome"},
    ],
}
