"""C10 - event processing terminates and a faulty flow fails alone.

Real code: RuntimeV2_x.process_events (driven on a virtual-time asyncio loop), run_to_completion, _advance_head_front (try/except -> ColangError),
the matching loop (_compute_event_matching_score, ComparisonExpression.compare, regex evaluation), slide, eval_expression, _abort_flow (activated restart).
"""
import copy

from harness import v2
from harness.common import conc, sl
from harness.vloop import VLoop
from vlib import stubs

from nemoguardrails import RailsConfig
from nemoguardrails.colang.v2_x.runtime import statemachine as sm
from nemoguardrails.colang.v2_x.runtime.flows import State
from nemoguardrails.colang.v2_x.runtime.runtime import RuntimeV2_x

FUNCTIONS = [
    "nemoguardrails.colang.v2_x.runtime.runtime.RuntimeV2_x.process_events",
    "nemoguardrails.colang.v2_x.runtime.statemachine.run_to_completion (matching loop, heads_failing, action resolution)",
    "nemoguardrails.colang.v2_x.runtime.statemachine._advance_head_front (try/except -> ColangError)",
    "nemoguardrails.colang.v2_x.runtime.statemachine._compute_event_matching_score / _compute_arguments_dict_matching_score",
    "nemoguardrails.colang.v2_x.runtime.eval.eval_expression / ComparisonExpression.compare",
    "nemoguardrails.colang.v2_x.runtime.statemachine.slide / _abort_flow / _finish_flow (activated restart)",
]
LAST_INFO = None
BUDGET = 150  # internal events per run_to_completion; the unchanged tree needs <= 14 on these programs


class Diverged(BaseException):
    pass


CALL_BUDGET = 560  # run_to_completion calls per process_events call (runtime.max_events caps them at 500)


class _Steps:
    n = 0
    worst = 0
    calls = 0


_orig_candidates = sm._get_all_head_candidates


def _counted(state, event):
    _Steps.n += 1
    if _Steps.n > _Steps.worst:
        _Steps.worst = _Steps.n
    if _Steps.n > BUDGET:
        raise Diverged("more than %d internal events while processing one event" % BUDGET)
    return _orig_candidates(state, event)


sm._get_all_head_candidates = _counted
_orig_rtc = sm.run_to_completion


def _rtc(state, external_event):
    _Steps.n = 0
    _Steps.calls += 1
    if _Steps.calls > CALL_BUDGET:
        raise Diverged("more than %d run_to_completion calls while processing one input event" % CALL_BUDGET)
    return _orig_rtc(state, external_event)


import nemoguardrails.colang.v2_x.runtime.runtime as _rtmod  # noqa: E402

_rtmod.run_to_completion = _rtc

BASE = '''
@loop("w")
flow witness
  match Ev()
  send Seen()

@loop("e")
flow errwatch
  match ColangError() as $err
  send ErrSeen(t=$err.type)

flow samewitness
  match Other()
  send SeenOther()

flow bad
%s
  send BadDone()
  match Never()

flow main
  activate witness
  activate errwatch
  activate samewitness
  %s bad
  match Never()
'''

# fault kind -> (body of `bad` up to its completion marker, fault predicate on the Ev payload)
def _is_int(a):
    return isinstance(a, int)


FAULTS = {
    "typeerr": ('  match Ev() as $e\n  $x = $e.a + "s"', lambda a: _is_int(a)),
    "lessthan": ('  match Ev(a=less_than("x"))', lambda a: True),  # the pattern itself cannot be built
    "badregex": ('  match Ev(a=regex("("))', lambda a: True),
    "priority": ("  match Ev() as $e\n  priority 2.0", lambda a: True),
    "divzero": ("  match Ev() as $e\n  $d = $e.a - 1\n  $y = 1 / $d", lambda a: (not _is_int(a)) or a == 1),
    "index": ("  match Ev() as $e\n  $l = [1, 2]\n  $z = $l[$e.a]", lambda a: (not _is_int(a)) or a >= 2),
    "cmptype": ("  match Ev(a=less_than(2))", lambda a: not _is_int(a)),  # comparing a string payload with a number
    "control": ("  match Ev(a=1)", lambda a: False),
    # errors that are not Colang*Error: an event name an action / a flow reference does not have
    "badactionevent": ('  match Ev() as $e\n  send UtteranceBotAction(script="x").Done()', lambda a: True),
    "badflowevent": ("  match Ev() as $e\n  start samewitness as $ref\n  send $ref.Done()", lambda a: True),
    "badactionparam": ("  match Ev() as $e\n  start UtteranceBotAction(script=$e.a)", lambda a: _is_int(a)),  # script must be a string
}
# does a fault-free Ev advance `bad`? (only for patterns that filter)
ADVANCES = {
    "cmptype": lambda a: _is_int(a) and a < 2,
    "control": lambda a: _is_int(a) and a == 1,
}

TERM = {
    # activated flow that may fail / finish before any waiting statement, depending on a payload
    "act_cond": '''
flow cond $k
  if $k == 1
    abort
  if $k == 2
    $z = 1 / 0
  if $k == 3
    return 5
  match Tick()
  send Ticked()

@loop("w")
flow witness
  match Ev()
  send Seen()

flow holder
  match Init() as $i
  activate cond $i.k
  match Never()

flow main
  activate witness
  start holder
  match Never()
''',
    # a flow that reacts to the program's own output (its loop contains a wait): process_events must still return (runtime.max_events)
    "self_feeding": '''
flow echo
  match StartUtteranceBotAction()
  start UtteranceBotAction(script="again")

@loop("w")
flow witness
  match Ev()
  send Seen()

flow main
  activate witness
  activate echo
  match Ev()
  start UtteranceBotAction(script="first")
  match Never()
''',
    # mutually recursive flows, each with a waiting statement
    "recursion": '''
flow rec_a
  match Ev()
  send A()
  await rec_b

flow rec_b
  match Ev()
  send B()
  await rec_a

@loop("w")
flow witness
  match Ev()
  send Seen()

flow main
  activate witness
  start rec_a
  match Never()
''',
}

KIND = sl("kind", "typeerr")
ACT = int(sl("act", 0))
L = int(sl("L", 2))

if KIND in FAULTS:
    SRC = BASE % (FAULTS[KIND][0], "activate" if ACT else "start")
else:
    SRC = TERM[KIND]
_CFG = RailsConfig.from_content(colang_content=SRC, yaml_content='colang_version: "2.x"\n')
_RT = RuntimeV2_x(_CFG, verbose=False)
_PRISTINE = copy.deepcopy(_RT.flow_configs)


class _Taint:
    symbolic_seen = False


def _process(state, events):
    """Drive the real process_events coroutine on the virtual-time loop. Returns (out events, state) or raises what it raised.
    While neither the state nor the event holds a symbolic value the call runs natively (same code, no tracer): cheaper, same result."""
    if v2.is_tracing() and not _Taint.symbolic_seen:
        concrete = True
        with v2.untraced():
            for ev in events:
                for val in ev.values():
                    if not isinstance(val, (int, str)) or type(val) not in (int, str):
                        concrete = False
        if concrete:
            with v2.untraced():
                return _process_inner(state, events)
        _Taint.symbolic_seen = True
    return _process_inner(state, events)


def _process_inner(state, events):
    _Steps.calls = 0
    loop = VLoop()
    res = {}

    async def go():
        try:
            res["r"] = await _RT.process_events(events, state)
        except BaseException as e:  # noqa
            res["exc"] = e

    loop.create_task(go())
    loop.run(max_steps=20000)
    if "exc" in res:
        raise res["exc"]
    if "r" not in res:
        raise RuntimeError("process_events did not complete")
    return res["r"]


def fresh():
    """Initial state with main started (native: nothing symbolic yet)."""
    _Taint.symbolic_seen = False
    with v2.untraced():
        _RT.flow_configs = copy.deepcopy(_PRISTINE)
        st = State(flow_states={}, flow_configs=_RT.flow_configs, rails_config=_CFG)
        sm.initialize_state(st)
        _out, st = _process(st, [])
    return st


def _event(sel, a):
    k = conc(sel, 0, 3)
    if k == 0:
        return {"type": "Ev", "a": a}
    if k == 1:
        return {"type": "Ev", "a": "q"}
    if k == 2:
        return {"type": "Other"}
    return {"type": "Irrelevant"}


def _names(out):
    return [e["type"] for e in out]


def isolated(s0: int, s1: int, s2: int, a0: int, a1: int, a2: int) -> bool:
    """
    For every history of L events (Ev with symbolic int payload, Ev with a string payload, Other, Irrelevant): process_events returns, stays within the step
    budget, the witnesses react to every event, a fault is reported exactly once as ColangError, and only `bad` stops.
    pre: 0 <= s0 <= 3 and 0 <= s1 <= 3 and 0 <= s2 <= 3 and 0 <= a0 <= 3 and 0 <= a1 <= 3 and 0 <= a2 <= 3
    pre: (L > 1 or (s1 == 0 and a1 == 0)) and (L > 2 or (s2 == 0 and a2 == 0))
    post: _
    """
    global LAST_INFO
    stubs.reset()
    stubs.set_choices([0, 0, 0, 0])
    fault_if = FAULTS[KIND][1]
    advances = ADVANCES.get(KIND, lambda a: True)
    trace = []
    why = None
    try:
        st = fresh()
        waiting = True  # `bad` is parked on its first match
        for (s, a) in [(s0, a0), (s1, a1), (s2, a2)][:L]:
            if KIND in ("divzero", "cmptype"):
                a = conc(a, 0, 3)  # symbolic division / a symbolic truth value used as a score are non-linear for the solver: the payload is enumerated instead
            ev = _event(s, a)
            out, st = _process(st, [ev])
            names = _names(out)
            trace.append({"event": ev, "out": names, "steps": _Steps.worst})
            want_seen = 1 if ev["type"] == "Ev" else 0
            want_other = 1 if ev["type"] == "Other" else 0
            want_err = 0
            want_done = 0
            if ev["type"] == "Ev" and waiting:
                if fault_if(ev["a"]):
                    want_err = 1
                    if not ACT:
                        waiting = False
                elif advances(ev["a"]):
                    want_done = 1
                    waiting = False
            if names.count("Seen") != want_seen:
                why = "unrelated flow in another loop saw %d x the event, expected %d" % (names.count("Seen"), want_seen)
            elif names.count("SeenOther") != want_other:
                why = "unrelated flow in the same loop reacted %d x, expected %d" % (names.count("SeenOther"), want_other)
            elif names.count("ErrSeen") != want_err:
                why = "ColangError reported %d x, expected %d" % (names.count("ErrSeen"), want_err)
            elif names.count("BadDone") != want_done:
                why = "faulty flow's completion marker %d x, expected %d" % (names.count("BadDone"), want_done)
            else:
                for fid in ("witness", "errwatch", "samewitness", "main"):
                    alive = False
                    for fs in st.flow_id_states.get(fid, []):
                        if sm.is_listening_flow(fs):
                            alive = True
                    if not alive:
                        why = "unrelated flow %s is no longer running" % fid
            if why:
                break
    except Diverged as e:
        why = "diverged: %s" % e
    except Exception as e:
        why = "exception escaped process_events: %r" % (e,)
    if not v2.is_tracing():
        LAST_INFO = {"program": SRC, "history": trace, "why": why}
    return why is None


def terminates(k: int, s0: int, s1: int, a0: int, a1: int) -> bool:
    """
    Termination family: an activated flow that (depending on the symbolic payload k) aborts, raises or returns before any waiting statement,
    and mutually recursive flows with waits: every event is processed within the step budget and the witness keeps reacting.
    pre: 0 <= k <= 4 and 0 <= s0 <= 3 and 0 <= s1 <= 3 and 0 <= a0 <= 1 and 0 <= a1 <= 1
    post: _
    """
    global LAST_INFO
    stubs.reset()
    stubs.set_choices([0, 0, 0, 0])
    trace = []
    why = None
    try:
        st = fresh()
        evs = []
        if KIND == "act_cond":
            evs.append({"type": "Init", "k": k})
        for (s, a) in [(s0, a0), (s1, a1)]:
            kk = conc(s, 0, 3)
            evs.append({"type": "Ev", "a": (0 if KIND == "self_feeding" else a)} if kk == 0 else ({"type": "Tick"} if kk == 1 else ({"type": "Other"} if kk == 2 else {"type": "Irrelevant"})))
        for ev in evs:
            out, st = _process(st, [ev])
            names = _names(out)
            trace.append({"event": ev, "out": names, "steps": _Steps.worst})
            if names.count("Seen") != (1 if ev["type"] == "Ev" else 0) and KIND != "self_feeding":
                why = "witness saw %d x %s" % (names.count("Seen"), ev["type"])
                break
    except Diverged as e:
        why = "diverged: %s" % e
    except Exception as e:
        why = "exception escaped process_events: %r" % (e,)
    if not v2.is_tracing():
        LAST_INFO = {"program": SRC, "history": trace, "why": why}
    return why is None


def fault_twin(s0: int, s1: int, s2: int, a0: int, a1: int, a2: int) -> bool:
    """
    Twin: claims no ColangError is ever observed (must be refuted: the faults are reachable).
    pre: 0 <= s0 <= 3 and 0 <= s1 <= 3 and 0 <= s2 <= 3 and 0 <= a0 <= 3 and 0 <= a1 <= 3 and 0 <= a2 <= 3
    pre: (L > 1 or (s1 == 0 and a1 == 0)) and (L > 2 or (s2 == 0 and a2 == 0))
    post: _
    """
    stubs.reset()
    stubs.set_choices([0, 0, 0, 0])
    st = fresh()
    for (s, a) in [(s0, a0), (s1, a1), (s2, a2)][:L]:
        out, st = _process(st, [_event(s, a)])
        if "ErrSeen" in _names(out):
            return False
    return True


_KINDS = sorted(FAULTS)
SPEC = {
    "property": "C10",
    "functions": FUNCTIONS,
    "bounds": "11 kinds of flow (unknown event of an action / of a flow reference, action parameter of the wrong type, type error in an assignment, comparison pattern that cannot be built, comparison against a payload of the wrong type, invalid regex pattern, priority out of range, division by zero "
              "and index error depending on the payload, and a fault-free control) x {started once, activated}; next to an unrelated flow in another interaction loop, one in the same "
              "loop and a ColangError observer; histories of L=2 (quick) / 3 (thorough) events over {Ev(a=int 0..3 symbolic), Ev(a='q'), Other, Irrelevant}; "
              "termination family: activated flow that aborts / raises / returns before any waiting statement depending on a symbolic payload, mutual recursion with waits, a flow reacting to the program's own output (process_events must return within runtime.max_events); "
              "step budget %d internal events per run_to_completion" % BUDGET,
    "outside": "programs with wait-free loops (excluded by the property); the step bound is an empirical constant (divergence detection, not a complexity proof); faults inside library flows",
    "assumptions": ["VLoop: virtual-time asyncio loop drives the real process_events coroutine", "tie-breaks fixed to the first candidate (no ties arise in these programs)",
                    "main is started natively (process_events([])); every later event is traced"],
    "explanation": "Oracle per event: exactly one reaction of each unrelated flow that should react; ErrSeen (observer of ColangError) exactly when the fault predicate holds for the payload and the faulty "
                   "flow is still waiting; the faulty flow's completion marker exactly when it should advance; all unrelated flows still running; no exception; step counter within budget.",
    "conditions": [
        {"fn": "isolated", "tiers": ("quick",), "slices": [{"kind": k, "act": a, "L": 2} for k in _KINDS for a in (0, 1)], "tcond": 900, "tpath": 60, "bound": "L=2",
         "smoke": [{"slice": {"kind": "lessthan", "act": 0, "L": 3}, "args": dict(s0=0, s1=2, s2=0, a0=1, a1=0, a2=2)},
                   {"slice": {"kind": "badregex", "act": 1, "L": 3}, "args": dict(s0=1, s1=0, s2=2, a0=0, a1=3, a2=0)},
                   {"slice": {"kind": "typeerr", "act": 1, "L": 3}, "args": dict(s0=0, s1=1, s2=0, a0=2, a1=0, a2=1)}]},
        {"fn": "isolated", "tiers": ("thorough",), "slices": [{"kind": k, "act": a, "L": 3} for k in _KINDS for a in (0, 1)], "tcond": 3000, "tpath": 60, "bound": "L=3"},
        {"fn": "terminates", "slices": [{"kind": "act_cond"}, {"kind": "recursion"}, {"kind": "self_feeding"}], "tcond": 900, "tpath": 60, "bound": "k in 0..4, two further events",
         "smoke": [{"slice": {"kind": "act_cond"}, "args": dict(k=1, s0=0, s1=1, a0=0, a1=0)}, {"slice": {"kind": "act_cond"}, "args": dict(k=2, s0=0, s1=1, a0=0, a1=0)},
                   {"slice": {"kind": "act_cond"}, "args": dict(k=3, s0=1, s1=0, a0=0, a1=0)}]},
        {"fn": "fault_twin", "expect": "counterexample", "slices": [{"kind": "divzero", "act": 0, "L": 2}, {"kind": "typeerr", "act": 1, "L": 2}], "tcond": 300, "tpath": 60, "bound": "twin"},
    ],
}
