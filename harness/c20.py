"""C20 - server loads configs only from its root; threads keep the exact history.

Real code: nemoguardrails.server.api._get_rails, _generate_cache_key, chat_completion,
nemoguardrails.server.datastore.memory_store.MemoryStore.
"""
import json
import os
import types

from harness.common import run_coro, sl
from vlib import stubs

import harness.common  # noqa
from nemoguardrails.server import api
from nemoguardrails.server.datastore.memory_store import MemoryStore

stubs.install(clock=False, choice=False)

FUNCTIONS = [
    "nemoguardrails.server.api._get_rails",
    "nemoguardrails.server.api._generate_cache_key",
    "nemoguardrails.server.api.chat_completion",
    "nemoguardrails.server.datastore.memory_store.MemoryStore.get",
    "nemoguardrails.server.datastore.memory_store.MemoryStore.set",
    "posixpath.join / posixpath.commonprefix (stdlib, pure Python, traced)",
]
LAST_INFO = None


def tracing():
    try:
        from crosshair.tracers import is_tracing

        return is_tracing()
    except ImportError:
        return False


# ---- environment stubs ------------------------------------------------------
def normpath_py(path):
    """CPython 3.12 Lib/posixpath.py pure-Python normpath (the C accelerator realises symbolic strings)."""
    sep = "/"
    if path == "":
        return "."
    initial_slashes = path.startswith(sep)
    if initial_slashes and path.startswith(sep * 2) and not path.startswith(sep * 3):
        initial_slashes = 2
    comps = path.split(sep)
    new_comps = []
    for comp in comps:
        if comp in ("", "."):
            continue
        if comp != ".." or (not initial_slashes and not new_comps) or (new_comps and new_comps[-1] == ".."):
            new_comps.append(comp)
        elif new_comps:
            new_comps.pop()
    path = sep.join(new_comps)
    if initial_slashes:
        path = sep * initial_slashes + path
    return path or "."


_CORPUS = ["", ".", "..", "a", "a/b", "a//b", "a/./b", "a/../b", "../a", "/..", "//a", "///a", "/a/b/../../..", "a/", "./", "/.", "a/..", "\\..\\x", "%2e%2e", "a\x00b"[:1]]
for _p in _CORPUS:
    assert normpath_py("/srv/root/" + _p) == os.path.normpath("/srv/root/" + _p), _p
    assert normpath_py(_p) == os.path.normpath(_p), _p


class _PathProxy(types.ModuleType):
    def __init__(self):
        super().__init__("posixpath_proxy")
        self.__dict__.update(os.path.__dict__)
        self.normpath = normpath_py
        real_join = os.path.join

        def abspath(p):
            if not p.startswith("/"):
                p = real_join(os.getcwd(), p)
            return normpath_py(p)

        self.abspath = abspath


class _OsProxy(types.ModuleType):
    def __init__(self):
        super().__init__("os_proxy")
        self.__dict__.update(os.__dict__)
        self.path = _PathProxy()


api.os = _OsProxy()


class ListDict:
    """dict semantics through == on keys (hash() of a symbolic str would realise it)."""

    def __init__(self):
        self.items_ = []

    def __contains__(self, k):
        for kk, _ in self.items_:
            if kk == k:
                return True
        return False

    def __getitem__(self, k):
        for kk, v in self.items_:
            if kk == k:
                return v
        raise KeyError(k)

    def __setitem__(self, k, v):
        for i, (kk, _) in enumerate(self.items_):
            if kk == k:
                self.items_[i] = (k, v)
                return
        self.items_.append((k, v))

    def get(self, k, d=None):
        for kk, v in self.items_:
            if kk == k:
                return v
        return d


class Recorder:
    loaded = []
    generate_calls = []


class FakeConfig:
    def __init__(self, path):
        self.path = path
        self.streaming_supported = False

    def __add__(self, other):
        return self


def fake_from_path(path):
    Recorder.loaded.append(path)
    return FakeConfig(path)


class FakeRails:
    def __init__(self, config=None, verbose=False):
        self.config = config
        self.events_history_cache = {}
        self.main_llm_supports_streaming = False
        self.reply = "R"

    async def generate_async(self, messages=None, options=None, state=None, streaming_handler=None):
        Recorder.generate_calls.append(list(messages))
        return {"role": "assistant", "content": self.reply}


api.RailsConfig = types.SimpleNamespace(from_path=fake_from_path)
api.LLMRails = FakeRails

ROOTS = ["/srv/root", "/srv/root/", "/r"]
ROOT = ROOTS[int(sl("root", 0))]
NLEN = int(sl("n", 4))
XLEN = sl("len")  # exact length of c1 (partition parameter) or None
SINGLE = sl("single")  # concrete single-config mode (partition parameter) or None


def _fits(c1, c2, single):
    if XLEN is not None and len(c1) != XLEN:
        return False
    if SINGLE is not None and bool(single) != bool(SINGLE):
        return False
    return len(c1) <= NLEN and len(c2) <= NLEN
NIDS = int(sl("ids", 1))


def _reset(single, root):
    Recorder.loaded = []
    Recorder.generate_calls = []
    api.llm_rails_instances = ListDict()
    api.llm_rails_events_history_cache = ListDict()
    api.app.rails_config_path = root
    api.app.single_config_mode = bool(single)
    api.app.single_config_id = "root" if single else None
    api.app.default_config_id = None


def _inside(p, base):
    base = base.rstrip("/")
    if p != base and not p.startswith(base + "/"):
        return False
    # p is absolute here, so a '..' component shows as '/../' inside or '/..' at the end
    if "/../" in p or p.endswith("/.."):
        return False
    return True


def confined(c1: str, c2: str, single: bool) -> bool:
    """
    Whatever the config ids are, every directory handed to RailsConfig.from_path is inside the root; otherwise ValueError.
    pre: _fits(c1, c2, single)
    post: _
    """
    global LAST_INFO
    _reset(single, ROOT)
    ids = [c1] if NIDS == 1 else [c1, c2]
    err = None
    try:
        api._get_rails(ids)
    except ValueError as e:
        err = "ValueError"
    ok = True
    for p in Recorder.loaded:
        if not _inside(p, ROOT):
            ok = False
    if not tracing():
        LAST_INFO = {"ids": ids, "root": ROOT, "single": single, "loaded": list(Recorder.loaded), "error": err}
    return ok


SEPS = ["/", "/../", "/../../", "/./", "\\", "..", "//", "/..", ""]
K0 = sl("k0")
K1 = sl("k1")
PL = sl("pl", [2, 2, 2])  # maximal piece lengths


def confined_structured(s0: str, s1: str, s2: str, k0: int, k1: int) -> bool:
    """
    Longer ids with structure: id = s0 + SEP[k0] + s1 + SEP[k1] + s2 with arbitrary short pieces (len<=2) and separators from
    {'/', '/../', '/../../', '/./', backslash, '..', '//', '/..', ''} - reaches traversal shapes such as 'a/../../rootX' that plain
    symbolic strings of length <= 6 cannot.
    pre: len(s0) <= PL[0] and len(s1) <= PL[1] and len(s2) <= PL[2] and 0 <= k0 <= 8 and 0 <= k1 <= 8
    pre: K0 is None or k0 == K0
    pre: K1 is None or k1 == K1
    post: _
    """
    global LAST_INFO
    _reset(False, ROOT)
    a = _pick(SEPS, k0)
    b = _pick(SEPS, k1)
    cid = s0 + a + s1 + b + s2
    err = None
    try:
        api._get_rails([cid])
    except ValueError:
        err = "ValueError"
    ok = True
    for p in Recorder.loaded:
        if not _inside(p, ROOT):
            ok = False
    if not tracing():
        LAST_INFO = {"id": cid, "root": ROOT, "loaded": list(Recorder.loaded), "error": err}
    return ok


def confined_twin(c1: str, c2: str, single: bool) -> bool:
    """
    Twin: claims nothing is ever loaded from a proper sub-directory.
    pre: len(c1) <= NLEN and len(c2) <= NLEN
    post: _
    """
    _reset(single, ROOT)
    try:
        api._get_rails([c1])
    except ValueError:
        return True
    return not (len(Recorder.loaded) == 1 and len(Recorder.loaded[0]) > len(ROOT) + 1)


POOL = ["a/b", "..", "../x", "/etc", "a\\b", "", ".", "ok", "%2e%2e", "....", "a..b", "root", "..\\x", "ok/", "/"]


def fixed_reply(k: int, single: bool) -> bool:
    """
    Through chat_completion, ids from a hostile pool (the reply text formats the id, which would realise a symbolic string):
    a rejected id yields the fixed 'could not load' reply and nothing is loaded or generated; otherwise only inside-root loads.
    pre: 0 <= k < len(POOL)
    post: _
    """
    global LAST_INFO
    _reset(single, ROOT)
    c1 = _pick(POOL, k)
    body = _Body([c1], None, [{"role": "user", "content": "hi"}])
    res = run_coro(api.chat_completion(body, _Request()))
    content = res["messages"][0]["content"]
    loaded_ok = all(_inside(p, ROOT) for p in Recorder.loaded)
    if not tracing():
        LAST_INFO = {"id": c1, "single": single, "loaded": list(Recorder.loaded), "reply": content}
    if len(Recorder.loaded) == 0:
        return content.startswith("Could not load the ") and len(Recorder.generate_calls) == 0
    if single and c1 != "root":
        return False
    return loaded_ok and content == "R"


# ---- (b) threads --------------------------------------------------------------
class _Request:
    headers = {}


class _Body:
    def __init__(self, config_ids, thread_id, messages, context=None):
        self.config_id = None
        self.config_ids = config_ids
        self.thread_id = thread_id
        self.messages = messages
        self.context = context
        self.stream = False
        self.options = None
        self.state = None

    def json(self):
        return "{}"


THREADS = [None, "T" * 16, "U" * 16, "T" * 15, "T" * 17]
MSGS = ["m0", "m1", "m2"]


def _pick(seq, k):
    i = 0
    while i < len(seq) - 1:
        if k == i:
            break
        i += 1
    return seq[i]


def threads_exact(t0: int, t1: int, t2: int, t3: int, m0: int, m1: int, m2: int, m3: int, n: int) -> bool:
    """
    For every sequence of n<=4 requests over thread ids {none, T, U, 15-char, 17-char}: messages handed to generate_async ==
    stored thread + new messages; stored afterwards == that + reply; other threads untouched; short id => fixed reply, store unchanged.
    pre: 0 <= n <= NREQ
    pre: 0 <= t0 <= 4 and 0 <= t1 <= 4 and 0 <= t2 <= 4 and 0 <= t3 <= 4
    pre: 0 <= m0 <= 2 and 0 <= m1 <= 2 and 0 <= m2 <= 2 and 0 <= m3 <= 2
    post: _
    """
    global LAST_INFO
    _reset(False, ROOT)
    store = MemoryStore()
    api.datastore = store
    model = {}  # thread id -> list of messages (reference model)
    ts = [t0, t1, t2, t3]
    ms = [m0, m1, m2, m3]
    k = 0
    log = []
    while k < n:
        tid = _pick(THREADS, ts[k])
        text = "m%d" % k  # data independence: the handler never inspects message contents
        cnt = CNT[k] if k < len(CNT) else 1  # number of new messages this request brings (slice key `cnt`, concrete partition)
        new = [{"role": "user", "content": text}]
        for j in range(1, cnt):
            new.append({"role": "assistant" if j % 2 else "user", "content": "%s_%d" % (text, j)})
        body = _Body(["cfg"], tid, list(new))
        before_calls = len(Recorder.generate_calls)
        before_store = dict(store.data)
        res = run_coro(api.chat_completion(body, _Request()))
        reply = res["messages"][0]
        log.append((tid, text, reply))
        if tid is not None and len(tid) < 16:
            if reply["content"] != "The `thread_id` must have a minimum length of 16 characters.":
                return False
            if len(Recorder.generate_calls) != before_calls or store.data != before_store:
                return False
        else:
            prior = model.get(tid, []) if tid is not None else []
            expected_in = prior + new
            if len(Recorder.generate_calls) != before_calls + 1 or Recorder.generate_calls[-1] != expected_in:
                return False
            if reply != {"role": "assistant", "content": "R"}:
                return False
            if tid is not None:
                model[tid] = expected_in + [reply]
            # the store holds exactly the model, nothing else changed
            if len(store.data) != len(model):
                return False
            for key_tid, msgs in model.items():
                if json.loads(store.data.get("thread-" + key_tid, "null")) != msgs:
                    return False
        k += 1
    if not tracing():
        LAST_INFO = {"requests": log, "store": dict(store.data)}
    return True


NREQ = int(sl("nreq", 3))
CNT = list(sl("cnt", [1, 1, 1, 1]))


def threads_symbolic_ids(a: str, b: str) -> bool:
    """
    Two requests with arbitrary thread ids a, b (16..17 chars): the second sees the first's history iff a == b.
    pre: 16 <= len(a) <= 17 and 16 <= len(b) <= 17
    post: _
    """
    global LAST_INFO
    _reset(False, ROOT)
    store = MemoryStore()
    store.data = ListDict()
    api.datastore = store
    run_coro(api.chat_completion(_Body(["cfg"], a, [{"role": "user", "content": "m0"}]), _Request()))
    run_coro(api.chat_completion(_Body(["cfg"], b, [{"role": "user", "content": "m1"}]), _Request()))
    second = Recorder.generate_calls[-1]
    if a == b:
        return len(second) == 3 and second[0]["content"] == "m0" and second[2]["content"] == "m1"
    return len(second) == 1 and second[0]["content"] == "m1"


def threads_twin(t0: int, t1: int, t2: int, t3: int, m0: int, m1: int, m2: int, m3: int, n: int) -> bool:
    """
    Twin: claims a thread never accumulates more than one exchange.
    pre: 0 <= n <= NREQ
    pre: 0 <= t0 <= 4 and 0 <= t1 <= 4 and 0 <= t2 <= 4 and 0 <= t3 <= 4
    pre: 0 <= m0 <= 2 and 0 <= m1 <= 2 and 0 <= m2 <= 2 and 0 <= m3 <= 2
    post: _
    """
    _reset(False, ROOT)
    store = MemoryStore()
    api.datastore = store
    ts = [t0, t1, t2, t3]
    ms = [m0, m1, m2, m3]
    k = 0
    while k < n:
        body = _Body(["cfg"], _pick(THREADS, ts[k]), [{"role": "user", "content": "m%d" % k}])
        run_coro(api.chat_completion(body, _Request()))
        k += 1
    for v in store.data.values():
        if len(json.loads(v)) > 2:
            return False
    return True


SPEC = {
    "property": "C20",
    "functions": FUNCTIONS,
    "bounds": "(a) config ids: 1 id with len<=5 (quick) / len<=6 and 2 ids len<=4 (thorough), any code points; roots /srv/root, /srv/root/, /r; single-config mode on/off; "
              "(b) every sequence of <=3 (thorough 4) requests over 5 thread selectors, each request bringing 1-3 new messages (concrete partition); two arbitrary symbolic 16-17 char thread ids",
    "outside": "Windows path semantics; ids longer than the bound; the HTTP/pydantic layer (bodies are duck-typed objects so thread ids can stay symbolic); streaming responses; "
               "os.listdir-based config listing; symlinks inside the root",
    "assumptions": ["os.path.normpath replaced by CPython 3.12's own pure-Python fallback (differential-tested against the C version on a corpus at import)",
                    "llm_rails_instances / MemoryStore.data replaced by a list-backed mapping with dict semantics (== on keys) where keys are symbolic",
                    "RailsConfig.from_path and LLMRails replaced by recorders (what is loaded is the observable)"],
    "explanation": "Oracle (a): every path passed to RailsConfig.from_path equals the root or starts with root+'/' and has no '..' component. (b): reference model of thread -> messages.",
    "conditions": [
        {"fn": "confined", "tiers": ("quick",), "slices": [{"root": r, "n": 5, "ids": 1, "len": ln, "single": sg} for r in range(3) for ln in range(6) for sg in (0,)], "tcond": 300, "tpath": 10,
         "bound": "1 id, len<=5", "smoke": [{"slice": {"root": 0, "n": 9}, "args": {"c1": "abc", "c2": "", "single": False}},
                                            {"slice": {"root": 0, "n": 9}, "args": {"c1": "../x", "c2": "", "single": False}}]},
        {"fn": "confined", "tiers": ("thorough",), "slices": [{"root": r, "n": 6, "ids": 1, "len": ln, "single": sg} for r in range(3) for ln in range(7) for sg in (0,)] + [{"root": r, "n": 4, "ids": 2, "len": ln, "single": 0} for r in range(3) for ln in range(5)],
         "tcond": 1500, "tpath": 10, "bound": "1 id len<=6; 2 ids len<=4 each"},
        {"fn": "confined_structured", "tiers": ("quick",), "slices": [{"root": 2, "k0": 2, "k1": 8, "pl": [1, 0, 2]}, {"root": 0, "k0": 2, "k1": 8, "pl": [1, 0, 2]}, {"root": 2, "k0": 1, "k1": 8, "pl": [1, 0, 2]}],
         "tcond": 600, "tpath": 10, "bound": "id = piece+sep+piece+sep+piece for the traversal shapes x/../../yy and x/../yy, pieces len<=1/2, roots /r and /srv/root",
         "smoke": [{"slice": {"root": 2}, "args": {"s0": "a", "s1": "", "s2": "r2", "k0": 2, "k1": 8}}]},
        {"fn": "confined_structured", "tiers": ("thorough",), "slices": [{"root": 2, "k0": k, "k1": k1, "pl": [1, 1, 2]} for k in range(9) for k1 in range(9)], "tcond": 2000, "tpath": 10,
         "bound": "root /r; all 81 separator pairs; pieces len<=1/1/2"},
        {"fn": "confined_twin", "expect": "counterexample", "slices": [{"root": 0, "n": 4}], "tcond": 120, "tpath": 10, "bound": "twin"},
        {"fn": "fixed_reply", "slices": [{"root": 0}, {"root": 1}], "tcond": 300, "tpath": 10, "bound": "15-entry hostile id pool x single-config mode on/off, through chat_completion",
         "smoke": [{"slice": {"root": 0}, "args": {"k": 0, "single": False}}]},
        {"fn": "threads_exact", "tiers": ("quick",), "slices": [{"nreq": 3, "cnt": [a, b, c]} for a in (1, 2) for b in (1, 2) for c in (1, 2)] + [{"nreq": 3, "cnt": [3, 1, 2]}], "tcond": 400, "tpath": 10,
         "bound": "<=3 requests, each bringing 1 or 2 new messages (all 8 combinations) and one 3/1/2 combination",
         "smoke": [{"slice": {"nreq": 4}, "args": {"t0": 1, "t1": 2, "t2": 1, "t3": 1, "m0": 0, "m1": 1, "m2": 2, "m3": 0, "n": 4}}]},
        {"fn": "threads_exact", "tiers": ("thorough",), "slices": [{"nreq": 4}, {"nreq": 4, "cnt": [2, 1, 2, 1]}, {"nreq": 4, "cnt": [1, 3, 1, 2]}], "tcond": 2000, "tpath": 10, "bound": "<=4 requests"},
        {"fn": "threads_symbolic_ids", "slices": [{}], "tcond": 300, "tpath": 20, "bound": "two arbitrary 16-17 char ids"},
        {"fn": "threads_twin", "expect": "counterexample", "slices": [{"nreq": 3}], "tcond": 200, "tpath": 10, "bound": "twin"},
    ],
}
