"""C07 - and/or groups behave like the boolean formula they spell.

(a) nemoguardrails.colang.v2_x.lang.expansion.normalize_element_groups / flatten_or_group (DNF) vs truth tables;
(b) expand_elements (_expand_match_element / _expand_await_element / _expand_when_stmt_element) at state build time, then
    run_to_completion (fork / merge / WaitForHeads) over every event sequence.
"""
import itertools

from harness import v2
from harness.common import conc, sl
from vlib import stubs

from nemoguardrails.colang.v2_x.lang.colang_ast import Spec
from nemoguardrails.colang.v2_x.lang.expansion import flatten_or_group, normalize_element_groups

FUNCTIONS = [
    "nemoguardrails.colang.v2_x.lang.expansion.normalize_element_groups",
    "nemoguardrails.colang.v2_x.lang.expansion.flatten_or_group",
    "nemoguardrails.colang.v2_x.lang.expansion._expand_match_element / _expand_await_element / _expand_when_stmt_element",
    "nemoguardrails.colang.v2_x.runtime.statemachine.run_to_completion (ForkHead, MergeHeads, WaitForHeads, scopes)",
]
LAST_INFO = None
SAMENAME = bool(sl("samename", 0))  # leaves are events of ONE name that differ only in an argument: E(p=0) .. E(p=7)
LEAVES = [Spec(name="E", arguments={"p": i}) for i in range(8)] if SAMENAME else [Spec(name="E%d" % i) for i in range(8)]


def _idx(leaf):
    return int(leaf.arguments["p"]) if SAMENAME else int(leaf.name[1:])


# ---- (a) DNF -------------------------------------------------------------
def _node(kind, a, b):
    if kind == 1:
        return {"_type": "spec_and", "elements": [a, b]}
    return {"_type": "spec_or", "elements": [a, b]}


def _ev(tree, val):
    if isinstance(tree, Spec):
        return val[_idx(tree)]
    # '&' / '|' on symbolic booleans build one solver term instead of forking per leaf
    parts = [_ev(e, val) for e in tree["elements"]]
    acc = parts[0]
    for p in parts[1:]:
        acc = (acc & p) if tree["_type"] == "spec_and" else (acc | p)
    return acc


def dnf_truth(k0: int, k1: int, k2: int, k3: int, k4: int, k5: int, k6: int, b0: bool, b1: bool, b2: bool, b3: bool, b4: bool, b5: bool, b6: bool, b7: bool) -> bool:
    """
    Depth<=3 binary formula (node kinds symbolic: 0 leaf, 1 and, 2 or; leaves fixed by position): the normal form is an or of ands
    of the original leaves with the same truth value under every assignment.
    pre: 0 <= k0 <= 2 and 0 <= k1 <= 2 and 0 <= k2 <= 2 and 0 <= k3 <= 2 and 0 <= k4 <= 2 and 0 <= k5 <= 2 and 0 <= k6 <= 2
    pre: k0 != 0
    post: _
    """
    global LAST_INFO
    val = [b0, b1, b2, b3, b4, b5, b6, b7]
    # level 3: four possible inner nodes over leaf pairs
    l3 = []
    for i, k in enumerate((k3, k4, k5, k6)):
        if k == 0:
            l3.append(LEAVES[2 * i])
        else:
            l3.append(_node(k, LEAVES[2 * i], LEAVES[2 * i + 1]))
    l2 = []
    for i, k in enumerate((k1, k2)):
        if k == 0:
            l2.append(l3[2 * i])
        else:
            l2.append(_node(k, l3[2 * i], l3[2 * i + 1]))
    root = _node(k0, l2[0], l2[1])
    res = normalize_element_groups(root)
    if res.get("_type") != "spec_or":
        return False
    truth = None
    for grp in res["elements"]:
        if not isinstance(grp, dict) or grp.get("_type") != "spec_and":
            return False
        g = None
        for leaf in grp["elements"]:
            if not isinstance(leaf, Spec):
                return False
            g = val[_idx(leaf)] if g is None else (g & val[_idx(leaf)])
        if g is None:
            return False
        truth = g if truth is None else (truth | g)
    want = _ev(root, val)
    if not v2.is_tracing():
        LAST_INFO = {"formula": _show(root), "dnf": [[l.name for l in g["elements"]] for g in res["elements"]], "assignment": val, "dnf_true": truth, "formula_true": want}
    return truth == want


def _show(t):
    if isinstance(t, Spec):
        return t.name
    op = " and " if t["_type"] == "spec_and" else " or "
    return "(" + op.join(_show(e) for e in t["elements"]) + ")"


def dnf_twin(k0: int, k1: int, k2: int, k3: int, k4: int, k5: int, k6: int, b0: bool, b1: bool, b2: bool, b3: bool, b4: bool, b5: bool, b6: bool, b7: bool) -> bool:
    """
    Twin: claims distribution never produces more than two and-groups.
    pre: 0 <= k0 <= 2 and 0 <= k1 <= 2 and 0 <= k2 <= 2 and 0 <= k3 <= 2 and 0 <= k4 <= 2 and 0 <= k5 <= 2 and 0 <= k6 <= 2
    pre: k0 != 0
    post: _
    """
    l2 = []
    for i, k in enumerate((k1, k2)):
        if k == 0:
            l2.append(LEAVES[4 * i])
        else:
            l2.append(_node(k, LEAVES[4 * i], LEAVES[4 * i + 2]))
    res = normalize_element_groups(_node(k0, l2[0], l2[1]))
    return len(res["elements"]) <= 2


# ---- (b) run time ------------------------------------------------------------
def all_formulas(nleaves):
    """All binary and/or trees over leaves 0..n-1 in order (every parenthesisation x every operator choice)."""
    def trees(lo, hi):
        if hi - lo == 1:
            return [lo]
        out = []
        for mid in range(lo + 1, hi):
            for l in trees(lo, mid):
                for r in trees(mid, hi):
                    out.append(("and", l, r))
                    out.append(("or", l, r))
        return out
    return trees(0, nleaves)


FORMULAS = {n: all_formulas(n) for n in (2, 3, 4)}


def f_src(t, leaf):
    if isinstance(t, int):
        return leaf(t)
    return "(" + f_src(t[1], leaf) + " " + t[0] + " " + f_src(t[2], leaf) + ")"


def f_eval(t, seen):
    if isinstance(t, int):
        return t in seen
    if t[0] == "and":
        return f_eval(t[1], seen) and f_eval(t[2], seen)
    return f_eval(t[1], seen) or f_eval(t[2], seen)


def program(form, t, n):
    looped = form.endswith("_loop")
    form = form.replace("_loop", "")
    expr = f_src(t, ((lambda i: "E(p=%d)" % i) if SAMENAME else (lambda i: "E%d()" % i)) if form == "match" else (lambda i: "f%d" % i))
    expr = expr[1:-1]  # top-level parentheses are optional
    flows = "".join("flow f%d\n  match E%d()\n\n" % (i, i) for i in range(n))
    if looped:  # the statement is re-entered after every completion: "since the statement became active" restarts
        if form == "match":
            return "flow main\n  while True\n    match %s\n    send Done()\n" % expr
        if form == "await":
            return flows + "flow main\n  while True\n    await %s\n    send Done()\n" % expr
        return flows + "flow main\n  while True\n    when %s\n      send Done()\n" % expr
    if form == "match":
        return "flow main\n  match %s\n  send Done()\n  match Never()\n" % expr
    if form == "await":
        return flows + "flow main\n  await %s\n  send Done()\n  match Never()\n" % expr
    return flows + "flow main\n  when %s\n    send Done()\n  match Never()\n" % expr


FORM = sl("form", "match")
LOOPED = FORM.endswith("_loop")
NL = int(sl("leaves", 2))
FIDX = int(sl("f", 0))
SEQ = int(sl("seq", 3))
TRACED_INIT = bool(sl("traced_init", 0))


def group_first_moment(s0: int, s1: int, s2: int, s3: int, s4: int, c0: int, c1: int, c2: int, c3: int) -> bool:
    """
    The statement after the group runs at exactly the first step at which the formula is true on the set of events seen so far
    (and only once), for every sequence of SEQ events over {E0..E(n-1), Irrelevant} (all orders, repeats, irrelevant events).
    pre: 0 <= s0 <= NL and 0 <= s1 <= NL and 0 <= s2 <= NL and 0 <= s3 <= NL and 0 <= s4 <= NL
    pre: 0 <= c0 <= 2 and 0 <= c1 <= 2 and 0 <= c2 <= 2 and 0 <= c3 <= 2
    post: _
    """
    global LAST_INFO
    stubs.reset()
    stubs.set_choices([c0, c1, c2, c3])
    t = FORMULAS[NL][FIDX]
    src = program(FORM, t, NL)
    st = v2.new_state(src, traced_init=TRACED_INIT)
    v2.start(st)
    if "Done" in v2.out_names(st):
        return False
    seen = set()
    fired = 0
    trace = []
    seq = [s0, s1, s2, s3, s4][:SEQ]
    for s in seq:
        k = conc(s, 0, NL)
        name = "E%d" % k if k < NL else "Irrelevant"
        if k < NL:
            seen.add(k)
        v2.run_to_completion(st, {"type": "E", "p": k} if (SAMENAME and k < NL and FORM.startswith("match")) else {"type": name})
        n_done = v2.out_names(st).count("Done")
        want_now = f_eval(t, seen) and (fired == 0 or LOOPED)
        trace.append((name, n_done))
        if not v2.is_tracing():
            LAST_INFO = {"program": src, "events": list(trace), "expected_done_at_this_step": want_now}
        if n_done != (1 if want_now else 0):
            return False
        fired += n_done
        if LOOPED and n_done:
            seen = set()  # a fresh activation starts with an empty history
    return True


def group_twin(s0: int, s1: int, s2: int, s3: int, s4: int, c0: int, c1: int, c2: int, c3: int) -> bool:
    """
    Twin: claims Done is never emitted at the last step of a sequence.
    pre: 0 <= s0 <= NL and 0 <= s1 <= NL and 0 <= s2 <= NL and 0 <= s3 <= NL and 0 <= s4 <= NL
    pre: 0 <= c0 <= 2 and 0 <= c1 <= 2 and 0 <= c2 <= 2 and 0 <= c3 <= 2
    post: _
    """
    stubs.reset()
    stubs.set_choices([c0, c1, c2, c3])
    t = FORMULAS[NL][FIDX]
    st = v2.new_state(program(FORM, t, NL), traced_init=True)
    v2.start(st)
    seq = [s0, s1, s2, s3, s4][:SEQ]
    last = 0
    for s in seq:
        k = conc(s, 0, NL)
        v2.run_to_completion(st, {"type": "E%d" % k if k < NL else "Irrelevant"})
        last = v2.out_names(st).count("Done")
    return last == 0


def _slices(form, leaves, seq, idxs=None):
    n = len(FORMULAS[leaves])
    return [{"form": form, "leaves": leaves, "f": f, "seq": seq} for f in (idxs if idxs is not None else range(n))]


SPEC = {
    "property": "C07",
    "functions": FUNCTIONS,
    "bounds": "tie-breaks: 4 symbolic outcomes of the interpreter's random.choice per run; (a) every binary and/or formula of depth<=3 over 8 positional leaves (3^7 shapes) x every truth assignment; "
              "(b) every binary and/or tree over 2..3 (thorough 4) distinct leaves in order (2 + 8 + 40 formulas) for `match` on events, `await` and `when` on flows; "
              "every event sequence of length 3 (n<=3) / 4 (thorough) over {E0..En-1, Irrelevant}, checked after every step",
    "outside": "re-entered statements (`while True` loop around the group) are covered for match (3 leaves) and await (2 leaves; thorough: await/when 3 leaves) only; more than 4 distinct leaves; the same leaf written twice in one formula; groups mixing actions and flows; event payloads other than one int parameter (match form, 3 leaves `E(p=i)` of one name; otherwise events are parameterless)",
    "assumptions": ["the state (parse + expand_elements + initialize) is rebuilt from source text on every path; parse untraced, expansion traced"],
    "explanation": "Oracle: truth-table equality for the DNF; for run time, #Done emitted at step k == 1 iff formula(seen_k) and not fired before, else 0.",
    "conditions": [
        {"fn": "dnf_truth", "slices": [{}, {"samename": 1}], "tcond": 900, "tpath": 10, "bound": "depth<=3, 3^7 shapes x 2^8 assignments; leaves with distinct names, and leaves of one name differing only in an argument",
         "smoke": [{"slice": {}, "args": dict(k0=1, k1=2, k2=2, k3=0, k4=1, k5=0, k6=0, b0=True, b1=False, b2=False, b3=True, b4=True, b5=False, b6=False, b7=False)}]},
        {"fn": "dnf_twin", "expect": "counterexample", "slices": [{}], "tcond": 120, "tpath": 10, "bound": "twin"},
        {"fn": "group_first_moment", "tiers": ("quick",), "slices": _slices("match", 2, 3) + _slices("match", 3, 3) + _slices("await", 2, 3) + _slices("await", 3, 2, [2, 6])
            + _slices("when", 2, 3) + _slices("when", 3, 2, [2, 6]) + _slices("match_loop", 3, 3, [0, 1, 5, 6]) + _slices("await_loop", 2, 3)
            + [dict(x, samename=1) for x in _slices("match", 3, 3)], "tcond": 600, "tpath": 30,
         "bound": "match: all 2-3 leaf formulas; await/when: all 2-leaf + 2 mixed 3-leaf formulas; all sequences of 3 events (2 for the 3-leaf await/when formulas)",
         "smoke": [{"slice": {"form": "await", "leaves": 3, "f": 1, "seq": 4}, "args": dict(s0=3, s1=0, s2=2, s3=1, s4=0, c0=0, c1=1, c2=0, c3=0)}]},
        {"fn": "group_first_moment", "tiers": ("thorough",), "slices": _slices("match", 4, 4) + _slices("await", 3, 4) + _slices("when", 3, 4)
            + _slices("await", 4, 4, [1, 6, 9, 17, 22, 30, 33, 38]) + _slices("when", 4, 4, [1, 6, 9, 17, 22, 30, 33, 38])
            + _slices("match_loop", 3, 4) + _slices("await_loop", 3, 4, [1, 2, 5, 6]) + _slices("when_loop", 3, 4, [1, 2, 5, 6]), "tcond": 3000, "tpath": 60,
         "bound": "match: all 40 4-leaf formulas; await/when: all 3-leaf + 8 4-leaf formulas; all sequences of 4 events"},
        {"fn": "group_twin", "expect": "counterexample", "slices": [{"form": "match", "leaves": 3, "f": 1, "seq": 3}, {"form": "await", "leaves": 2, "f": 0, "seq": 3}, {"form": "when", "leaves": 2, "f": 1, "seq": 3}],
         "tcond": 300, "tpath": 30, "bound": "twin"},
    ],
}
