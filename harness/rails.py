"""LLMRails-level harness support (C01, C02, C03, C16, C17): offline LLMRails instances with a scripted/recording LLM,
a stub embedding provider, recording rail actions, and a driver that runs the real generate_async on the virtual-time loop."""
import contextlib

import harness.common  # noqa: F401
from harness.vloop import VLoop
from vlib import stubs

from nemoguardrails import LLMRails, RailsConfig
from nemoguardrails.embeddings.providers import register_embedding_provider
from nemoguardrails.embeddings.providers.base import EmbeddingModel

try:
    from crosshair.tracers import NoTracing, is_tracing
except ImportError:  # pragma: no cover
    NoTracing = None

    def is_tracing():
        return False


def untraced():
    if NoTracing is not None and is_tracing():
        return NoTracing()
    return contextlib.nullcontext()


class StubVec(EmbeddingModel):
    """Deterministic bag-of-characters embedding (offline stand-in for the embedding model)."""

    engine_name = "stubvec"

    def __init__(self, embedding_model=None, **kwargs):
        self.model = embedding_model
        self.embedding_size = 32

    def encode(self, documents):
        out = []
        for d in documents:
            v = [0.0] * 32
            for i, ch in enumerate(d):
                v[(ord(ch) + i) % 32] += 1.0
            v[0] += 0.5
            out.append(v)
        return out

    async def encode_async(self, documents):
        return self.encode(documents)


register_embedding_provider(StubVec, "stubvec")

YAML_HEAD = """
models:
  - type: main
    engine: fake
    model: fake
  - type: embeddings
    engine: stubvec
    model: stub
"""


class _Gen:
    def __init__(self, text):
        self.text = text


class _Result:
    def __init__(self, text):
        self.generations = [[_Gen(text)]]
        self.llm_output = None


class ScriptExhausted(BaseException):
    pass


class FakeLLM:
    """Duck-typed LLM: records every prompt (and its own parameters at call time) and answers from a script, or through `responder(prompt, n)`."""

    model_name = "fake"
    temperature = 7

    def __init__(self):
        self.model_kwargs = {}
        self.reset()

    def reset(self, script=None, responder=None):
        self.prompts = []
        self.params_seen = []
        self.script = list(script or [])
        self.responder = responder
        self.log = None  # shared chronological log (list) if set

    async def agenerate_prompt(self, prompts, callbacks=None, stop=None, **kwargs):
        p = prompts[0]
        text = p.to_string() if hasattr(p, "to_string") else str(p)
        self.prompts.append(text)
        self.params_seen.append(self.temperature)
        if self.log is not None:
            self.log.append(("llm", len(self.prompts)))
        if self.responder is not None:
            return _Result(self.responder(text, len(self.prompts) - 1))
        if not self.script:
            raise ScriptExhausted("more LLM calls than the harness scripted")
        return _Result(self.script.pop(0))


def build(colang, yaml_tail="", actions=None, colang_version=None):
    """A real LLMRails instance (built natively) with the fake LLM and the given actions registered."""
    yaml = YAML_HEAD + yaml_tail
    if colang_version:
        yaml = ("colang_version: \"%s\"\n" % colang_version) + yaml
    cfg = RailsConfig.from_content(colang_content=colang, yaml_content=yaml)
    llm = FakeLLM()
    app = LLMRails(cfg, llm=llm, verbose=False)
    for name, fn in (actions or {}).items():
        app.register_action(fn, name)
    return app, llm


def reset_app(app):
    app.events_history_cache.clear()
    if hasattr(app, "explain_info"):
        app.explain_info = None


class Escaped(Exception):
    """generate_async raised; carries the original exception."""


def generate(app, messages, options=None, state=None, max_steps=200000):
    """Run the real LLMRails.generate_async to completion on a fresh virtual-time loop."""
    loop = VLoop()
    res = {}

    async def go():
        try:
            kw = {}
            if options is not None:
                kw["options"] = options
            if state is not None:
                kw["state"] = state
            res["r"] = await app.generate_async(messages=messages, **kw)
        except BaseException as e:  # noqa
            res["exc"] = e

    loop.create_task(go())
    loop.run(max_steps=max_steps)
    if "exc" in res:
        e = res["exc"]
        if isinstance(e, Exception):
            raise Escaped(repr(e)) from e
        raise e
    if "r" not in res:
        raise Escaped("generate_async did not complete")
    return res["r"]


class Handover:
    """C01-C03 v2 multi-turn: the State object is handed to the next turn by reference instead of through JSON
    (a traced JSON round trip of a whole State costs > 30 s per turn; the fidelity of that round trip is C11's subject)."""

    store = {}

    @staticmethod
    def put(state):
        Handover.store["s"] = state
        return "handover"

    @staticmethod
    def get(tok):
        return Handover.store["s"]


def install_handover():
    import nemoguardrails.rails.llm.llmrails as _lr

    _lr.state_to_json = Handover.put
    _lr.json_to_state = Handover.get
    stubs.USED.append("handover: state_to_json/json_to_state as imported into llmrails.py hand the State object to the next turn by reference")


stubs.install()
