"""C13 - parsing ignores meaningless layout and reports every bad file as a parsing error.

(a) error path: nemoguardrails.rails.llm.config._parse_colang_files_recursively (handler) +
    nemoguardrails.colang.v2_x.lang.utils.format_colang_parsing_error_message, with the parser replaced by a stub
    that raises an exception whose class / line / column are solver variables; plus a concrete corpus of malformed
    files through RailsConfig.from_path (real parsers).
(b) layout: real v1 / v2 parsers on layout edits chosen by solver variables.
"""
import io
import os
import tempfile

import lark
from lark.exceptions import UnexpectedCharacters, UnexpectedEOF, UnexpectedToken
from lark.indenter import DedentError

from harness.common import conc, concb, sl
from vlib import stubs

import harness.common  # noqa
from nemoguardrails import RailsConfig
from nemoguardrails.colang import parse_colang_file as real_parse
from nemoguardrails.colang.v2_x.lang.utils import dataclass_to_dict, format_colang_parsing_error_message
from nemoguardrails.colang.v2_x.runtime.errors import ColangParsingError, ColangSyntaxError
from nemoguardrails.rails.llm import config as cfgmod

stubs.install(clock=False, choice=False)

FUNCTIONS = [
    "nemoguardrails.rails.llm.config._parse_colang_files_recursively",
    "nemoguardrails.colang.v2_x.lang.utils.format_colang_parsing_error_message",
    "nemoguardrails.rails.llm.config.RailsConfig.from_path (corpus, plain runs)",
    "nemoguardrails.colang.v2_x.lang.parser.parse_colang_file / nemoguardrails.colang.v1_0.lang.colang_parser (layout conditions, executed natively)",
]
LAST_INFO = None


def tracing():
    try:
        from crosshair.tracers import is_tracing

        return is_tracing()
    except ImportError:
        return False


def untraced():
    return stubs._untraced()


class Shaped(Exception):
    """An exception with whatever line/column attributes the solver chooses (incl. None / missing)."""


PATH = "/cfg/rails/bad.co"
NKINDS = 15


def _make_exc(kind, line, col, has_line, has_col):
    if kind == 0:
        return UnexpectedEOF(["X"])
    if kind == 1:
        return UnexpectedCharacters("abc def", 1, line, col)
    if kind == 2:
        tok = lark.Token("NAME", "x")
        if has_line:
            tok.line = line
        if has_col:
            tok.column = col
        return UnexpectedToken(tok, {"A", "B"})
    if kind == 3:
        return DedentError("Unexpected dedent to column 1. Expected dedent to 0")
    if kind == 4:
        return Exception("boom")
    if kind == 5:
        return KeyError("k")
    if kind == 6:
        return IndexError("list index out of range")
    if kind == 7:
        return AttributeError("'NoneType' object has no attribute 'x'")
    if kind == 8:
        return RecursionError("maximum recursion depth exceeded")
    if kind == 9:
        return ColangSyntaxError("bad syntax")
    if kind == 10:
        return TypeError("unsupported operand")
    if kind == 11:
        return ValueError("Unsupported colang version 3")
    if kind == 13:
        return ValueError("malformed node or string on line 1: <ast.Name object at 0x7f>")
    if kind == 14:
        return UnicodeDecodeError("utf-8", b"\xff", 0, 1, "invalid start byte")
    e = Shaped("shaped")
    if has_line:
        e.line = line
    else:
        e.line = None
    if has_col:
        e.column = col
    return e


def handler_total(kind: int, line: int, col: int, has_line: bool, has_col: bool, nl: int, trailing: bool, v2: bool) -> bool:
    """
    Whatever the parser raises, loading raises ColangParsingError naming the file - never another exception type.
    pre: 0 <= kind < NKINDS and -2 <= line <= 4 and -1 <= col <= 2 and 0 <= nl <= 3
    pre: V2FIX is None or v2 == bool(V2FIX)
    post: _
    """
    global LAST_INFO
    kind, nl = conc(kind, 0, NKINDS - 1), conc(nl, 0, 3)
    trailing, v2 = concb(trailing), concb(v2)
    if kind in (1, 2, 12):  # the only shapes that look at line / column
        line, col, has_line, has_col = conc(line, -2, 4), conc(col, -1, 2), concb(has_line), concb(has_col)
    else:
        line, col, has_line, has_col = 1, 1, False, False
    content = "\n".join(["line %d" % i for i in range(nl)])
    if trailing:
        content += "\n"
    exc = _make_exc(kind, line, col, has_line, has_col)

    def fake_parse(filename, content=None, version="1.0", include_source_mapping=True):
        raise exc

    def fake_open(path, mode="r", encoding=None):
        return io.StringIO(content)

    cfgmod.parse_colang_file = fake_parse
    cfgmod.open = fake_open
    outcome = None
    try:
        try:
            cfgmod._parse_colang_files_recursively({"colang_version": "2.x" if v2 else "1.0"}, [("bad.co", PATH)], [])
            outcome = "returned"
        except ColangParsingError as e:
            outcome = "ColangParsingError"
            ok = PATH in str(e)
            if not tracing():
                LAST_INFO = {"kind": kind, "exception": repr(exc), "line": getattr(exc, "line", "<none>"), "content": content, "outcome": outcome, "names_file": ok}
            return ok
        except Exception as e:  # noqa
            outcome = type(e).__name__ + ": " + ("" if tracing() else str(e))
    finally:
        cfgmod.parse_colang_file = real_parse
        del cfgmod.open
    if not tracing():
        LAST_INFO = {"kind": kind, "exception": repr(exc), "line": getattr(exc, "line", "<none>"), "content": content, "outcome": outcome}
    return False


def handler_twin(kind: int, line: int, col: int, has_line: bool, has_col: bool, nl: int, trailing: bool, v2: bool) -> bool:
    """
    Twin: claims the formatted message never contains a marker line for an in-range position.
    pre: 0 <= kind < NKINDS and -2 <= line <= 5 and -2 <= col <= 5 and 0 <= nl <= 3
    post: _
    """
    kind, line, col, nl = conc(kind, 0, NKINDS - 1), conc(line, -2, 5), conc(col, -2, 5), conc(nl, 0, 3)
    has_line, has_col = concb(has_line), concb(has_col)
    content = "\n".join(["line %d" % i for i in range(nl)])
    exc = _make_exc(kind, line, col, has_line, has_col)
    try:
        msg = format_colang_parsing_error_message(exc, content)
    except Exception:
        return True
    return not (kind == 1 and "^" in msg and 1 <= line <= nl)


# ---- concrete corpus of malformed files through the real loader --------------
CORPUS_V2 = [
    "flow main\n  match (",
    "flow main\n\tmatch Ev()\n  send A()",
    "flow main\n    match Ev()\n  send A()\n send B()",
    "flow",
    "flow main\n  match Ev(",
    "flow main\n  send A(\"unterminated)",
    "flow main\n  if\n    send A()",
    "flow main\n  $x = [1, 2",
    "import\nflow main\n  send A()",
    "flow main\n  \"\"\"\n  unterminated doc",
    "flow main\n  when\n",
    "flow main\n  match Ev() and",
    "flow main\n  send A()\n    send B()",
    "@decorator(\nflow main\n  send A()",
    "flow main $x = \n  send A()",
    "flow main\n  return return",
    "flow éè main\n  send A()",
    "flow main\n  send A() )",
    "flow main\n  match Ev().Finished(.x)",
    "flow main\n  await\n",
    "flow main\n  $ = 3",
    "flow main\n  send A()\nflow main\n  ???",
    "﻿flow main\n  send A() }",
    "flow main\n  match Ev()\r\n  send {",
    "@meta(priority=compute())\nflow main\n  send A()\n",
]
CORPUS_V1 = [
    "define flow\n  user",
    "define user x\n  \"hi\n",
    "define flow a\n  if\n    bot x",
    "define flow a\n  user x\n    bot y\n   bot z",
    "define flow a\n  $x = (1,\n",
    "define flow a\n  execute foo(",
    "define\n",
    "define bot x\n  {{\n",
    "define flow a\n  when\n",
    "define flow a\n  else\n    bot x",
    "define subflow\n  goto",
    "define flow a\n\tuser x",
    "define flow x",
    "define user y\n  \"a\"\n\ndefine flow x\n",
    "define bot b",
    "define flow a\n  execute fetch_profile(name=john)\n",
]


def corpus_file(k: int, v2: bool) -> bool:
    """
    Concrete malformed files through RailsConfig.from_path with the real parsers (plain enumeration, file I/O untraced).
    pre: 0 <= k < 25
    post: _
    """
    global LAST_INFO
    k, v2 = conc(k, 0, 24), concb(v2)
    with untraced():
        corpus = CORPUS_V2 if v2 else CORPUS_V1
        if k >= len(corpus):
            return True
        text = corpus[k]
        d = tempfile.mkdtemp(prefix="c13_")
        try:
            with open(os.path.join(d, "config.yml"), "w") as f:
                f.write("colang_version: \"2.x\"\n" if v2 else "colang_version: \"1.0\"\n")
            fn = os.path.join(d, "bad.co")
            with open(fn, "w", encoding="utf-8") as f:
                f.write(text)
            outcome = "loaded"
            ok = True
            import signal

            def _alarm(*a):
                raise TimeoutError("parser did not return within 20 s")

            old = signal.signal(signal.SIGALRM, _alarm)
            signal.alarm(20)
            try:
                RailsConfig.from_path(d)
            except ColangParsingError as e:
                outcome = "ColangParsingError"
                ok = "bad.co" in str(e)
            except Exception as e:  # noqa
                outcome = type(e).__name__ + ": " + str(e)[:200]
                ok = False
            finally:
                signal.alarm(0)
                signal.signal(signal.SIGALRM, old)
            LAST_INFO = {"v2": v2, "text": text, "outcome": outcome}
            return ok
        finally:
            import shutil

            shutil.rmtree(d, ignore_errors=True)


# ---- (b) layout -----------------------------------------------------------
V2_PROGRAMS = [
    "flow a $x\n  match Ev(x=$x)\n  if $x == 1\n    send A()\n  else\n    send B()\n\nflow main\n  start a 1 as $r\n  match $r.Finished() or Ev2()\n"
    "  while $r\n    await UtteranceBotAction(script=\"hi there\")\n    break\n  when Ev3()\n    send C()\n  or when Ev4()\n    send D()\n",
    "import core\n\n@active\nflow greet $name=\"x\" -> $out\n  \"\"\"Doc string.\"\"\"\n  $out = \"hi {$name}\"\n  return $out\n\nflow main\n  activate greet\n  $d = {\"a\": [1, 2], \"b\": {3}}\n  match Ev(p=$d) and (Ev2() or Ev3())\n",
    "flow main\n  global $g\n  $g = 1\n  when user said \"hi\"\n    bot say \"hello\"\n  else\n    abort\n  await x\n\nflow x\n  match regex(\"a.*\").Finished() as $e\n  priority 0.5\n  send E(v=$e.value)\n",
]
V2_PROGRAMS.append(
    "flow user greeted\n  match UtteranceUserActionFinished(final_transcript=\"hi\")\n    or UtteranceUserActionFinished(final_transcript=\"hello\")\n"
    "    or UtteranceUserActionFinished(final_transcript=\"hey\")\n\nflow bot greets\n  await UtteranceBotAction(script=\"Hi there\")\n    and GestureBotAction(gesture=\"Wave\")\n\n"
    "flow main\n  user greeted\n  bot greets\n  match RestartEvent()\n")
V1_PROGRAMS = [
    "define user express greeting\n  \"hello\"\n  \"hi\"\n\ndefine bot express greeting\n  \"Hello there!\"\n\ndefine flow greeting\n  user express greeting\n  if $x == 1\n    bot express greeting\n  else\n    execute foo(a=1)\n  $y = 2\n  while $y > 0\n    $y = $y - 1\n",
    "define flow a\n  user ask\n  do b\n  bot answer\n\ndefine subflow b\n  $z = execute lookup(q=$last_user_message)\n  if not $z\n    bot refuse\n    stop\n",
]
STRIP = ("_source", "source_code", "file_info", "_source_mapping", "source_mapping")


def strip(o):
    if isinstance(o, dict):
        return {k: strip(v) for k, v in o.items() if k not in STRIP}
    if isinstance(o, list):
        return [strip(x) for x in o]
    return o


def parse_norm(text, v2):
    if v2:
        return strip(dataclass_to_dict(real_parse("x.co", text, include_source_mapping=False, version="2.x")))
    return strip(real_parse("x.co", text, include_source_mapping=False, version="1.0"))


def edit(text, kind, pos, amount):
    lines = text.split("\n")
    if kind == 0:  # blank line inserted before line pos
        lines = lines[:pos] + [""] + lines[pos:]
    elif kind == 1:  # trailing spaces on line pos
        lines[pos] = lines[pos] + " " * (amount + 1)
    elif kind == 2:  # uniform indentation scale
        out = []
        for ln in lines:
            n = len(ln) - len(ln.lstrip(" "))
            out.append(" " * (n * (amount + 2)) + ln.lstrip(" "))
        lines = out
    elif kind == 3:  # end-of-line comment on a non-empty line (2.x)
        if lines[pos].strip() != "":
            lines[pos] = lines[pos] + "  # a comment"
    elif kind == 4:  # whitespace-only blank line
        lines = lines[:pos] + [" " * (2 * amount)] + lines[pos:]
    return "\n".join(lines)


V2FIX = sl("v2fix")
PAIRS = int(sl("pairs", 0))
KINDFIX = sl("kind")
PROG = int(sl("prog", 0))
IS_V2 = bool(sl("v2", 1))


def layout_invariant(kind: int, pos: int, amount: int, kind2: int, pos2: int) -> bool:
    """
    One or two layout edits (blank line, trailing spaces, indentation scale, end-of-line comment, whitespace-only line)
    never change the parsed flows.  The parser runs natively: its input is concrete on every path.
    pre: 0 <= kind <= 4 and 0 <= kind2 <= 5 and 0 <= amount <= 1 and 0 <= pos <= 18 and 0 <= pos2 <= 18
    pre: KINDFIX is None or kind == KINDFIX
    pre: PAIRS == 1 or (kind2 == 5 and pos2 == 0)
    post: _
    """
    global LAST_INFO
    kind, pos, amount, kind2, pos2 = conc(kind, 0, 4), conc(pos, 0, 18), conc(amount, 0, 1), conc(kind2, 0, 5), conc(pos2, 0, 18)
    with untraced():
        text = (V2_PROGRAMS if IS_V2 else V1_PROGRAMS)[PROG]
        nlines = len(text.split("\n"))
        if pos >= nlines or pos2 >= nlines:
            return True
        if not IS_V2 and (kind == 3 or kind2 == 3):
            return True
        edited = edit(text, kind, pos, amount)
        if kind2 <= 4:
            if pos2 >= len(edited.split("\n")):
                return True
            edited = edit(edited, kind2, pos2, amount)
        base = parse_norm(text, IS_V2)
        try:
            got = parse_norm(edited, IS_V2)
        except Exception as e:  # noqa
            LAST_INFO = {"program": text, "edited": edited, "error": repr(e)[:300]}
            return False
        LAST_INFO = {"edited": edited, "equal": got == base}
        return got == base


SPEC = {
    "property": "C13",
    "functions": FUNCTIONS,
    "bounds": "(a) exception class from a 15-entry pool (lark UnexpectedEOF/Characters/Token, DedentError, ColangSyntaxError, builtin errors, an exception with arbitrary/None/missing "
              "line & column), line/column in -2..5 or absent, files of 0..3 lines with/without trailing newline, both Colang versions; a 41-file concrete malformed corpus through from_path; "
              "(b) 4 Colang-2 (incl. multi-line and/or continuations) and 2 Colang-1 programs under every single and every pair of layout edits (5 kinds x line position)",
    "outside": "totality of the parsers over arbitrary text and hangs (the Lark lexer / regexes realise symbolic text; only the handler is quantified symbolically); trailing TABs "
               "(the 2.x grammar rejects them - not claimed); comment-only lines (not end-of-line comments); programs outside the catalogue",
    "assumptions": ["(a) parse_colang_file is replaced by a stub raising the solver-chosen exception; open() by an in-memory file",
                    "(b) and the corpus run the parsers natively (input concrete per path): the solver enumerates the edit / corpus index space exhaustively"],
    "explanation": "Oracle (a): ColangParsingError whose text contains the file path, never another type. (b): parse results equal modulo source positions.",
    "conditions": [
        {"fn": "handler_total", "slices": [{"v2fix": 0}, {"v2fix": 1}], "tcond": 600, "tpath": 10, "bound": "15 exception shapes x line -2..4 / col -1..2 / absent / None x 0..3 lines x trailing newline",
         "smoke": [{"slice": {}, "args": {"kind": 1, "line": 1, "col": 2, "has_line": True, "has_col": True, "nl": 2, "trailing": False, "v2": True}},
                   {"slice": {}, "args": {"kind": 0, "line": 0, "col": 0, "has_line": False, "has_col": False, "nl": 1, "trailing": False, "v2": True}},
                   {"slice": {}, "args": {"kind": 3, "line": 0, "col": 0, "has_line": False, "has_col": False, "nl": 2, "trailing": True, "v2": False}}]},
        {"fn": "handler_twin", "expect": "counterexample", "slices": [{}], "tcond": 120, "tpath": 10, "bound": "twin"},
        {"fn": "corpus_file", "slices": [{}], "tcond": 600, "tpath": 30, "bound": "25 Colang-2 + 16 Colang-1 malformed files, 20 s hang guard each through RailsConfig.from_path",
         "smoke": [{"slice": {}, "args": {"k": 0, "v2": True}}, {"slice": {}, "args": {"k": 1, "v2": True}}, {"slice": {}, "args": {"k": 3, "v2": False}}]},
        {"fn": "layout_invariant", "tiers": ("quick",), "slices": [{"prog": p, "v2": 1} for p in range(4)] + [{"prog": p, "v2": 0} for p in range(2)], "tcond": 300, "tpath": 30,
         "bound": "every single layout edit on all 6 programs", "smoke": [{"slice": {"prog": 0, "v2": 1}, "args": {"kind": 2, "pos": 0, "amount": 1, "kind2": 3, "pos2": 3}}]},
        {"fn": "layout_invariant", "tiers": ("thorough",), "slices": [{"prog": p, "v2": 1, "pairs": 1, "kind": k} for p in range(4) for k in range(5)] + [{"prog": p, "v2": 0, "pairs": 1, "kind": k} for p in range(2) for k in range(5)], "tcond": 3000, "tpath": 30,
         "bound": "single + pairs of edits on all 6 programs"},
    ],
}
