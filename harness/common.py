"""Helpers shared by harness modules."""
import json
import os
import sys

sys.path.insert(0, os.environ.get("VERIF_REPO", "/repo"))

SLICE = json.loads(os.environ.get("VERIF_SLICE", "{}"))


def sl(name, default=None):
    return SLICE.get(name, default)


class Suspended(Exception):
    """A coroutine that the harness expects to run straight through suspended."""


def run_coro(coro):
    """Drive a coroutine that must not suspend (no event loop involved)."""
    try:
        coro.send(None)
    except StopIteration as e:
        return e.value
    coro.close()
    raise Suspended("coroutine suspended; the harness assumes it runs to completion")


def conc(x, lo, hi):
    """Branch until the bounded symbolic int x is a concrete Python int on this path."""
    v = lo
    while v < hi:
        if x == v:
            return v
        v += 1
    return hi


def concb(b):
    if b:
        return True
    return False
