"""C11 - a saved or aged conversation state continues exactly like the live one.

Real code: state_to_json / json_to_state (encode_to_dict, decode_from_dict, re-created head callbacks) with the real json module on native states;
run_to_completion on the live and on the restored state (traced, symbolic continuation); _clean_up_state (ageing).
"""
import json
import re

from harness import c09, progs, v2
from harness.common import conc, sl
from vlib import stubs

from nemoguardrails.colang.v2_x.runtime.serialization import decode_from_dict, encode_to_dict, json_to_state, state_to_json

FUNCTIONS = [
    "nemoguardrails.colang.v2_x.runtime.serialization.state_to_json / json_to_state",
    "nemoguardrails.colang.v2_x.runtime.serialization.encode_to_dict / decode_from_dict",
    "nemoguardrails.colang.v2_x.runtime.statemachine.run_to_completion (continuation on live vs restored state)",
    "nemoguardrails.colang.v2_x.runtime.statemachine._clean_up_state (ageing)",
]
LAST_INFO = None

PROG = sl("prog", "await_child_action")
L = int(sl("L", 3))
CUT = sl("cut")  # partition on the cut point
GAP = sl("gap")  # partition on the position of the idle gap (aged_same)
P = progs.PROGRAMS[PROG]
NLET = len(P["letters"])

_UID = re.compile(r"[0-9a-f]{8}-[0-9a-f]{4}-4[0-9a-f]{3}-[0-9a-f]{4}-[0-9a-f]{12}")


def normalise(outs, table):
    """Outgoing events with identifiers renamed by order of first occurrence, time stamps dropped."""
    res = []
    for name, args in outs:
        a = {}
        for k, val in args.items():
            if k in ("event_created_at", "uid"):
                continue
            plain = False
            with v2.untraced():
                if type(val) is str and _UID.search(val):
                    plain = True
            if k == "action_uid" or plain:
                if val not in table:
                    table[val] = "id%d" % len(table)
                val = table[val]
            a[k] = val
        res.append((name, a))
    return res


def _letter(k, pay):
    lt = P["letters"][k]
    if lt[0] == "ev" and lt[2]:
        kw = {}
        for name, val in lt[2].items():
            kw[name] = val + pay if isinstance(val, int) else val
        return ("ev", lt[1], kw)
    return lt


def _has_payload(k):
    lt = P["letters"][k]
    return lt[0] == "ev" and any(isinstance(x, int) for x in lt[2].values())


def _native_prefix(sels, pays, cut, gaps=()):
    """Start the program, run its catalogue prefix and the first `cut` events natively (everything concrete). Returns (state, history helper)."""
    with v2.untraced():
        stubs.set_choices([0] * 8)
        st = v2.new_state(P["src"])
        v2.start(st)
        h = progs.History()
        for k in P.get("prefix", [0]):
            v2.run_to_completion(st, h.event(P["letters"][k]))
            h.observe(st.outgoing_events)
        for i in range(cut):
            if i in gaps:
                stubs.advance(10.0)
            if st.main_flow_state.status == v2.FlowStatus.WAITING:
                v2.start(st)
            v2.run_to_completion(st, h.event(_letter(sels[i], pays[i])))
            h.observe(st.outgoing_events)
    return st, h


def continues_same(cut: int, s0: int, s1: int, s2: int, s3: int, p0: int, p1: int, p2: int, p3: int, c0: int, c1: int) -> bool:
    """
    After `cut` events the state is serialised to JSON and restored; the live and the restored state then react identically (same outgoing events up to
    fresh identifiers) to every continuation of the history; serialisation itself succeeds.
    pre: 0 <= cut <= L and (CUT is None or cut == int(CUT)) and c09._pre([s0, s1, s2, s3][:L], [p0, p1, p2, p3][:L], [c0, c1], L)
    pre: (L > 1 or (s1 == 0 and p1 == 0)) and (L > 2 or (s2 == 0 and p2 == 0)) and (L > 3 or (s3 == 0 and p3 == 0))
    post: _
    """
    global LAST_INFO
    stubs.reset()
    cut = conc(cut, 0, L)
    sels = [s0, s1, s2, s3][:L]
    pays = [p0, p1, p2, p3][:L]
    # the part of the history before the cut is made concrete (solver-enumerated) so that the state at the cut is a native object
    csel = [conc(sels[i], 0, NLET - 1) for i in range(cut)]
    cpay = [(conc(pays[i], 0, 1) if _has_payload(csel[i]) else 0) for i in range(cut)]
    why = None
    trace = []
    try:
        live, h1 = _native_prefix(csel, cpay, cut)
        with v2.untraced():
            try:
                blob = state_to_json(live)
                restored = json_to_state(blob)
            except Exception as e:  # the property demands that this succeeds for every reachable state
                restored = None
                why = "state after %d events cannot be serialised / restored: %r" % (cut, e)
        if restored is not None:
            h2 = progs.History()
            h2.actions = list(h1.actions)
            t1, t2 = {}, {}
            for i in range(cut, L):
                k = conc(sels[i], 0, NLET - 1)
                outs = []
                for (st, h, tab) in ((live, h1, t1), (restored, h2, t2)):
                    stubs.set_choices([c0, c1, c0, c1])
                    try:
                        if st.main_flow_state.status == v2.FlowStatus.WAITING:
                            v2.start(st)
                        v2.run_to_completion(st, h.event(_letter(k, pays[i])))
                        h.observe(st.outgoing_events)
                        outs.append(normalise(v2.out_events(st), tab))
                    except Exception as e:
                        outs.append([("EXCEPTION", {"type": type(e).__name__})])
                if not v2.is_tracing():
                    trace.append({"event": P["letters"][k], "live": outs[0], "restored": outs[1]})
                if outs[0] != outs[1]:
                    why = "after restoring at event %d, event %d gives %r on the restored state but %r on the live state" % (cut, i + 1, outs[1], outs[0])
                    break
    except stubs.OutOfChoices:
        raise
    if not v2.is_tracing():
        LAST_INFO = {"program": PROG, "cut": cut, "prefix": [P["letters"][k] for k in csel], "continuation": trace, "why": why}
    return why is None


def aged_same(g: int, s0: int, s1: int, s2: int, s3: int, p0: int, p1: int, p2: int, p3: int, c0: int, c1: int) -> bool:
    """
    The same history with a 10 s idle gap before event g (after which long-finished flow instances are discarded) produces the same outgoing events as without the gap.
    pre: 0 <= g < L and (GAP is None or g == int(GAP)) and c09._pre([s0, s1, s2, s3][:L], [p0, p1, p2, p3][:L], [c0, c1], L)
    pre: (L > 1 or (s1 == 0 and p1 == 0)) and (L > 2 or (s2 == 0 and p2 == 0)) and (L > 3 or (s3 == 0 and p3 == 0))
    post: _
    """
    global LAST_INFO
    sels = [s0, s1, s2, s3][:L]
    pays = [p0, p1, p2, p3][:L]
    runs = []
    for gap in (None, g):
        stubs.reset()
        st, h = _native_prefix([], [], 0)
        tab = {}
        outs = []
        for i in range(L):
            if gap is not None and gap == i:
                stubs.advance(10.0)
            stubs.set_choices([c0, c1, c0, c1])
            k = conc(sels[i], 0, NLET - 1)
            try:
                if st.main_flow_state.status == v2.FlowStatus.WAITING:
                    v2.start(st)
                v2.run_to_completion(st, h.event(_letter(k, pays[i])))
                h.observe(st.outgoing_events)
                outs.append(normalise(v2.out_events(st), tab))
            except Exception as e:
                outs.append([("EXCEPTION", {"type": type(e).__name__})])
        runs.append(outs)
    ok = runs[0] == runs[1]
    if not v2.is_tracing():
        LAST_INFO = {"program": PROG, "gap_before_event": g, "without_gap": runs[0], "with_gap": runs[1]}
    return ok


# ---- (a) value level --------------------------------------------------------------------------------------------------------
def _value(kind, x, shared):
    """A value of the given kind with leaf x; `shared` is an object that some kinds embed (aliasing)."""
    if kind == 0:
        return x
    if kind == 1:
        return [x, x + 1]
    if kind == 2:
        return {"k": x, "n": None}
    if kind == 3:
        return (x, "t")
    if kind == 4:
        return {x, -1}
    if kind == 5:
        return [shared, {"again": shared}]
    if kind == 6:
        return {"deep": {"deeper": [x, {"deepest": (x,)}]}}
    if kind == 7:
        return 0.5 + x
    if kind == 8:
        return True if x else None
    return "s"


def _equal_typed(a, b):
    if type(a) is not type(b) and not (isinstance(a, int) and isinstance(b, int)) and not (isinstance(a, float) and isinstance(b, float)):
        return False
    if isinstance(a, (list, tuple)):
        if len(a) != len(b):
            return False
        for x, y in zip(a, b):
            if not _equal_typed(x, y):
                return False
        return True
    if isinstance(a, dict):
        if len(a) != len(b):
            return False
        for k in a:
            if k not in b or not _equal_typed(a[k], b[k]):
                return False
        return True
    return a == b


def roundtrip_values(k0: int, k1: int, x: int, y: int) -> bool:
    """
    encode_to_dict -> JSON-compatible structure -> decode_from_dict returns an equal value of the same types, for a pair of values of symbolic kinds sharing an object.
    pre: 0 <= k0 <= 9 and 0 <= k1 <= 9 and 0 <= x <= 3 and 0 <= y <= 3
    post: _
    """
    global LAST_INFO
    shared = {"s": y}
    v = {"a": _value(conc(k0, 0, 9), x, shared), "b": _value(conc(k1, 0, 9), y, shared), "c": shared}
    enc = encode_to_dict(v, {})
    dec = decode_from_dict(enc, {})
    ok = _equal_typed(v, dec)
    if ok and conc(k0, 0, 9) == 5 and (dec["c"] is not dec["a"][0]):
        ok = False  # aliasing between dict objects must survive
    if not v2.is_tracing():
        with v2.untraced():
            text_ok = None
            try:
                text_ok = _equal_typed(v, decode_from_dict(json.loads(json.dumps(encode_to_dict(v, {}))), {}))
            except Exception as e:
                text_ok = repr(e)
        LAST_INFO = {"value": repr(v), "decoded": repr(dec), "through_json_text": text_ok}
        if text_ok is not True:
            ok = False
    return ok


def cut_twin(cut: int, s0: int, s1: int, s2: int, s3: int, p0: int, p1: int, p2: int, p3: int, c0: int, c1: int) -> bool:
    """
    Twin: claims nothing is ever emitted after a restore (must be refuted: the continuation is not vacuous).
    pre: 1 <= cut <= L - 1 and c09._pre([s0, s1, s2, s3][:L], [p0, p1, p2, p3][:L], [c0, c1], L)
    pre: (L > 1 or (s1 == 0 and p1 == 0)) and (L > 2 or (s2 == 0 and p2 == 0)) and (L > 3 or (s3 == 0 and p3 == 0))
    post: _
    """
    stubs.reset()
    cut = conc(cut, 0, L)
    sels = [s0, s1, s2, s3][:L]
    pays = [p0, p1, p2, p3][:L]
    csel = [conc(sels[i], 0, NLET - 1) for i in range(cut)]
    cpay = [(conc(pays[i], 0, 1) if _has_payload(csel[i]) else 0) for i in range(cut)]
    live, h1 = _native_prefix(csel, cpay, cut)
    with v2.untraced():
        restored = json_to_state(state_to_json(live))
    n = 0
    for i in range(cut, L):
        stubs.set_choices([c0, c1, c0, c1])
        v2.run_to_completion(restored, h1.event(_letter(conc(sels[i], 0, NLET - 1), pays[i])))
        h1.observe(restored.outgoing_events)
        n += len(restored.outgoing_events)
    return n == 0


SER = ["shared_action_started", "await_child_action", "two_children", "when_scope", "await_or", "activate_wait", "activate_two_parents", "grandchildren", "shared_action", "conflict", "loop_counter",
       "vars_kinds", "vars_regex", "vars_cmp", "vars_intkeys", "finish_main", "when_action_conflict"]


def _sl(names, L, cuts=None):
    if cuts is None:
        return [{"prog": n, "L": L} for n in names]
    return [{"prog": n, "L": L, "cut": c} for n in names for c in cuts]


SPEC = {
    "property": "C11",
    "functions": FUNCTIONS,
    "bounds": "(b) 15 programs (the C06/C09 catalogue + programs whose variables hold nested lists, dicts, floats, booleans, strings, a regex flow parameter, a dict with int keys, references to "
              "events / actions / flows used again after the cut); after the catalogue prefix (Go), histories of L=2 (quick) / 3-4 (thorough) events; every cut point (quick: 0 or 1); the history before the cut is enumerated "
              "(selectors and payload offsets made concrete), the continuation after the cut is symbolic (selectors, payload offsets, tie-breaks); real json text in between. "
              "(c) one 10 s idle gap at any position vs no gap. (a) pairs of values over 10 kinds (scalars, list, dict, tuple, set, shared object, deep nesting, float, bool/None, str).",
    "outside": "values inside the state at the cut are concrete on each path (the JSON encoder is a C boundary): the solver quantifies over cut point, history and continuation; LLMRails level (generate_async(state=...)); longer histories",
    "assumptions": ["pre-cut history and state_to_json/json_to_state run natively on native objects; both continuations run traced under the same tie-break inputs",
                    "outgoing events are compared after renaming identifiers by first occurrence and dropping time stamps"],
    "explanation": "Oracle: serialisation must not raise; for every continuation event the normalised outgoing events of the restored state equal those of the live state (an exception on one side only is a difference); "
                   "the aged run equals the un-aged run; decode(encode(v)) equals v with the same types and preserved dict aliasing, also through real JSON text (checked at replay).",
    "conditions": [
        {"fn": "continues_same", "tiers": ("quick",), "slices": _sl([n for n in SER if n not in ("conflict", "loop_counter", "await_or", "two_children")], 2, (0, 1)), "tcond": 900, "tpath": 60, "bound": "catalogue prefix + L=2, cut after 0 or 1 events",
         "smoke": [{"slice": {"prog": "vars_kinds", "L": 3}, "args": dict(cut=1, s0=1, s1=2, s2=3, s3=0, p0=0, p1=0, p2=0, p3=0, c0=0, c1=0)},
                   {"slice": {"prog": "vars_regex", "L": 2}, "args": dict(cut=1, s0=1, s1=2, s2=0, s3=0, p0=0, p1=0, p2=0, p3=0, c0=0, c1=0)},
                   {"slice": {"prog": "vars_cmp", "L": 2}, "args": dict(cut=0, s0=2, s1=1, s2=0, s3=0, p0=0, p1=0, p2=0, p3=0, c0=0, c1=0)},
                   {"slice": {"prog": "vars_intkeys", "L": 2}, "args": dict(cut=0, s0=1, s1=2, s2=0, s3=0, p0=0, p1=0, p2=0, p3=0, c0=0, c1=0)},
                   {"slice": {"prog": "when_scope", "L": 3}, "args": dict(cut=1, s0=4, s1=2, s2=5, s3=0, p0=0, p1=0, p2=0, p3=0, c0=0, c1=0)}]},
        {"fn": "continues_same", "tiers": ("thorough",), "slices": _sl(SER, 3, (0, 1, 2)) + _sl(["vars_kinds", "finish_main"], 4, (2, 3)), "tcond": 3000, "tpath": 60,
         "bound": "prefix + L=3, every cut; L=4 on 2 programs with late cuts"},
        {"fn": "aged_same", "tiers": ("quick",), "slices": _sl(["await_child_action", "activate_two_parents", "when_scope", "activate_wait", "two_children", "finish_main", "shared_action_started"], 2), "tcond": 900, "tpath": 60, "bound": "prefix + L=2, one gap"},
        {"fn": "aged_same", "tiers": ("thorough",), "slices": [{"prog": n, "L": 3, "gap": g} for n in SER for g in (0, 1, 2) if n not in ("activate_two_parents", "grandchildren")]
            + [{"prog": n, "L": 2, "gap": g} for n in ("activate_two_parents", "grandchildren") for g in (0, 1)], "tcond": 3000, "tpath": 60, "bound": "prefix + L=3 (two heavy programs: L=2), one gap at any position"},
        {"fn": "roundtrip_values", "slices": [{}], "tcond": 600, "tpath": 30, "bound": "10 x 10 kinds",
         "smoke": [{"slice": {}, "args": dict(k0=5, k1=3, x=1, y=2)}, {"slice": {}, "args": dict(k0=4, k1=6, x=0, y=3)}]},
        {"fn": "cut_twin", "expect": "counterexample", "slices": [{"prog": "await_child_action", "L": 2}], "tcond": 300, "tpath": 60, "bound": "twin"},
    ],
}
