"""C06 - flow and action lifetimes are bounded by the parent flow.

Real code: run_to_completion, _abort_flow, _finish_flow, slide (EndScope), _update_action_status_by_event, Action.process_event,
_process_internal_events_without_default_matchers (StartFlow of activated flows), _resolve_action_conflicts (shared actions).
Programs/alphabets: harness/progs.py (same history machinery as C09).
"""
from harness import c09, progs, v2
from harness.common import sl
from vlib import stubs

from nemoguardrails.colang.v2_x.runtime.statemachine import is_listening_flow

FUNCTIONS = [
    "nemoguardrails.colang.v2_x.runtime.statemachine.run_to_completion",
    "nemoguardrails.colang.v2_x.runtime.statemachine._abort_flow / _finish_flow (children, actions, activated restart)",
    "nemoguardrails.colang.v2_x.runtime.statemachine.slide (EndScope, start_new_flow_instance label)",
    "nemoguardrails.colang.v2_x.runtime.statemachine._process_internal_events_without_default_matchers (StartFlow / activated reference instances)",
    "nemoguardrails.colang.v2_x.runtime.statemachine._update_action_status_by_event",
    "nemoguardrails.colang.v2_x.runtime.flows.Action.process_event",
    "nemoguardrails.colang.v2_x.runtime.statemachine._resolve_action_conflicts (shared identical actions)",
]
LAST_INFO = None
P = c09.P
L = c09.L
PROG = c09.PROG


class Ledger:
    """What an observer of the event streams knows about actions."""

    def __init__(self):
        self.started = []  # uids in start order
        self.finished = set()  # uids whose ...ActionFinished was fed to the program
        self.stops = {}  # uid -> number of Stop events seen

    def feed(self, ev):
        t = ev.get("type", "")
        if t.endswith("ActionFinished") and "action_uid" in ev:
            self.finished.add(ev["action_uid"])

    def observe(self, outgoing):
        """Returns a description of the first accounting violation in this batch, or None."""
        for e in outgoing:
            t = e.get("type", "")
            u = e.get("action_uid")
            if t.startswith("Start") and t.endswith("Action"):
                self.started.append(u)
            elif t.startswith("Stop") and t.endswith("Action"):
                if u not in self.started:
                    return "Stop for an action that was never started"
                if u in self.finished:
                    return "Stop for an action that already finished"
                self.stops[u] = self.stops.get(u, 0) + 1
                if self.stops[u] > 1:
                    return "second Stop for the same action"
        return None


def _running(st, flow_id):
    for fs in st.flow_id_states.get(flow_id, []):
        if is_listening_flow(fs):
            return True
    return False


def lifetimes(st, led, stopped_now):
    """Structural part of the oracle, evaluated after an event has been fully processed."""
    main_uid = st.main_flow_state.uid
    for uid, fs in st.flow_states.items():
        if not is_listening_flow(fs) or uid == main_uid:
            continue
        if fs.activated == 0:
            par = st.flow_states.get(fs.parent_uid) if fs.parent_uid else None
            if par is None or not is_listening_flow(par):
                return "flow %s still running although the flow that started it has ended" % fs.flow_id
    # actions: an unfinished, unstopped action needs a running owner; a Stop needs all owners to have ended
    for u in led.started:
        owners_running = False
        for fs in st.flow_states.values():
            if u in fs.action_uids and is_listening_flow(fs):
                owners_running = True
        if u not in led.finished and led.stops.get(u, 0) == 0 and not owners_running:
            return "unfinished action outlived every flow that started it without a Stop"
        if u in stopped_now and owners_running:
            return "action stopped although a flow sharing it is still running"
    # activated flows: exactly one listening instance per (flow, arguments) while an activator runs, none afterwards
    for (flow_id, args), activators in P.get("activations", {}).items():
        want = 0
        for a in activators:
            if _running(st, a):
                want = 1
        have = 0
        for fs in st.flow_id_states.get(flow_id, []):
            if is_listening_flow(fs):
                match = True
                for (k, val) in args:
                    if fs.arguments.get(k) != val:
                        match = False
                if match:
                    have += 1
        if have != want:
            return "activated flow %s%s: %d running instances, expected %d" % (flow_id, dict(args), have, want)
    return None


def _react_expect(st_before_running, ev):
    """[(reply name, expected count)] for this event from the program's react table."""
    out = []
    for (name, params, reply, flows) in P.get("react", []):
        if ev.get("type") != name:
            continue
        ok = True
        for k, val in params.items():
            if ev.get(k) != val:
                ok = False
        if not ok:
            continue
        alive = False
        for f in flows:
            if st_before_running.get(f):
                alive = True
        out.append((reply, 1 if alive else 0))
    return out


def _run(sels, pays, choices, tadv):
    global LAST_INFO
    stubs.reset()
    st, h = c09.fresh_state()
    stubs.set_choices(choices)
    led = Ledger()
    for name, uid in h.actions:
        led.started.append(uid)
    once = {}
    trace = []
    react_flows = set()
    for (_n, _p, _r, flows) in P.get("react", []):
        react_flows.update(flows)
    bad = lifetimes(st, led, [])
    for i in range(L):
        if bad:
            break
        if tadv == i:
            stubs.advance(10.0)
        ev = h.event(c09._letter(sels[i], pays[i]))
        before = {f: _running(st, f) for f in react_flows}
        led.feed(ev)
        if st.main_flow_state.status == v2.FlowStatus.WAITING:
            v2.start(st)  # like RuntimeV2_x.process_events: a finished main flow is started again before the next event
            h.observe(st.outgoing_events)
        v2.run_to_completion(st, ev)
        h.observe(st.outgoing_events)
        n_stops_before = dict(led.stops)
        bad = led.observe(st.outgoing_events)
        stopped_now = [u for u in led.stops if led.stops[u] != n_stops_before.get(u, 0)]
        names = v2.out_names(st)
        if not bad:
            bad = lifetimes(st, led, stopped_now)
        if not bad:
            for (reply, cnt) in _react_expect(before, ev):
                if names.count(reply) != cnt:
                    bad = "event %s produced %d x %s, expected %d" % (ev.get("type"), names.count(reply), reply, cnt)
        if not bad:
            for n in P.get("once", []):
                once[n] = once.get(n, 0) + names.count(n)
                if once[n] > 0:
                    bad = "%s emitted again (the activated flow that finishes without waiting must run once)" % n
        if not v2.is_tracing():
            trace.append({"event": ev, "out": names})
            LAST_INFO = {"program": PROG, "prefix": [P["letters"][k] for k in P.get("prefix", [0])], "history": trace, "broken": bad}
    return (not bad), led


def bounded(s0: int, s1: int, s2: int, s3: int, p0: int, p1: int, p2: int, p3: int, c0: int, c1: int, c2: int, tadv: int) -> bool:
    """
    After each of L events: children of ended flows have stopped; Stop accounting per action is exact; activated flows are running iff an activator runs
    and react to their trigger exactly once.
    pre: c09._pre([s0, s1, s2, s3][:L], [p0, p1, p2, p3][:L], [c0, c1, c2], tadv)
    pre: (L > 1 or (s1 == 0 and p1 == 0)) and (L > 2 or (s2 == 0 and p2 == 0)) and (L > 3 or (s3 == 0 and p3 == 0))
    post: _
    """
    ok, _ = _run([s0, s1, s2, s3], [p0, p1, p2, p3], [c0, c1, c2, c0, c1, c2], tadv)
    return ok


def stop_twin(s0: int, s1: int, s2: int, s3: int, p0: int, p1: int, p2: int, p3: int, c0: int, c1: int, c2: int, tadv: int) -> bool:
    """
    Twin: claims no Stop event is ever emitted (must be refuted for programs with actions).
    pre: c09._pre([s0, s1, s2, s3][:L], [p0, p1, p2, p3][:L], [c0, c1, c2], tadv)
    pre: (L > 1 or (s1 == 0 and p1 == 0)) and (L > 2 or (s2 == 0 and p2 == 0)) and (L > 3 or (s3 == 0 and p3 == 0))
    post: _
    """
    ok, led = _run([s0, s1, s2, s3], [p0, p1, p2, p3], [c0, c1, c2, c0, c1, c2], tadv)
    return len(led.stops) == 0


LIFE = ["await_child_action", "two_children", "when_scope", "await_or", "activate_wait", "activate_immediate", "activate_two_parents", "grandchildren", "shared_action", "activate_twice"]
SPEC = {
    "property": "C06",
    "functions": FUNCTIONS,
    "bounds": "10 catalogue programs (parent awaiting/starting children with actions, finish and StopFlow of the parent, when/or-when scope, or-group of flows, two flows sharing an identical action, "
              "activate of a waiting / immediately finishing flow, two activators with equal and different arguments, one flow activating the same flow twice, grand-children); after the native `Go` prefix, histories of L=2 (quick) / 3 (thorough) "
              "events over each alphabet incl. ActionStarted/ActionFinished feedback arriving early, late or never; payload offsets, tie-breaks, optional 10 s idle gap",
    "outside": "hierarchies outside the catalogue; actions started directly inside a when-scope; explicit deactivate; longer histories",
    "assumptions": ["'flows that started an action' are read from FlowState.action_uids; 'started by' from FlowState.parent_uid",
                    "the activated-flow oracle is behavioural: a per-program table says which flows activate which (flow, arguments) and what reply each trigger event must produce"],
    "explanation": "Oracle per step: (i) every running non-activated flow has a running parent; (ii) per action uid over the whole history: Stop only after Start, never after a fed Finished, at most once; "
                   "an unfinished unstopped action has a running owner; a Stop is only emitted when no owner is running; (iii) per activated (flow, arguments): one running instance iff an activator runs; "
                   "trigger events are answered exactly once iff an activator ran before the step; an immediately finishing activated flow emits its marker once.",
    "conditions": [
        {"fn": "bounded", "tiers": ("quick",), "slices": c09._slices(LIFE, 2, split=False) + c09._slices(["shared_action_started"], 3), "tcond": 900, "tpath": 30,
         "bound": "prefix + L=2, 10 programs; L=3 after the shared action was started (partitioned on the first event)",
         "smoke": [{"slice": {"prog": "shared_action", "L": 4}, "args": dict(s0=1, s1=2, s2=4, s3=3, p0=0, p1=0, p2=0, p3=0, c0=0, c1=1, c2=0, tadv=4)},
                   {"slice": {"prog": "activate_two_parents", "L": 4}, "args": dict(s0=3, s1=1, s2=4, s3=2, p0=0, p1=0, p2=0, p3=0, c0=0, c1=0, c2=0, tadv=1)},
                   {"slice": {"prog": "await_child_action", "L": 3}, "args": dict(s0=5, s1=1, s2=2, s3=0, p0=0, p1=0, p2=0, p3=0, c0=0, c1=0, c2=0, tadv=3)}]},
        {"fn": "bounded", "tiers": ("thorough",), "slices": c09._slices(LIFE, 3) + c09._slices(["shared_action_started"], 3),
         "tcond": 3000, "tpath": 60, "bound": "prefix + L=3 all 9 programs, L=3 also after the shared action was started"},
        {"fn": "stop_twin", "expect": "counterexample", "slices": [{"prog": "await_child_action", "L": 2}, {"prog": "shared_action", "L": 3, "s0": 1}], "tcond": 300, "tpath": 30, "bound": "twin"},
    ],
}
