"""Virtual-time asyncio event loop (integer ticks): timers fire in `when` order (ties FIFO),
time jumps to the next timer when nothing is ready.  Makes arrival times and latencies
harness variables instead of wall-clock accidents."""
import asyncio
import collections
from asyncio import events


class StepBudget(Exception):
    pass


class VLoop(asyncio.AbstractEventLoop):
    def __init__(self):
        self._ready = collections.deque()
        self._timers = []
        self._now = 0
        self.errors = []
        self.steps = 0

    def time(self):
        return self._now

    def call_soon(self, callback, *args, context=None):
        h = asyncio.Handle(callback, args, self, context)
        self._ready.append(h)
        return h

    call_soon_threadsafe = call_soon

    def call_later(self, delay, callback, *args, context=None):
        return self.call_at(self._now + delay, callback, *args, context=context)

    def call_at(self, when, callback, *args, context=None):
        h = asyncio.TimerHandle(when, callback, args, self, context)
        i = len(self._timers)
        while i > 0 and self._timers[i - 1]._when > when:
            i -= 1
        self._timers.insert(i, h)
        return h

    def _timer_handle_cancelled(self, handle):
        pass

    def create_future(self):
        return asyncio.Future(loop=self)

    def create_task(self, coro, *, name=None, context=None):
        if context is None:
            return asyncio.Task(coro, loop=self, name=name)
        return asyncio.Task(coro, loop=self, name=name, context=context)

    def get_debug(self):
        return False

    def is_running(self):
        return True

    def is_closed(self):
        return False

    def call_exception_handler(self, context):
        self.errors.append(context)

    def default_exception_handler(self, context):
        self.errors.append(context)

    def run(self, max_steps=2000, until=None):
        """Run until nothing is left to do (or `until()` is true)."""
        events._set_running_loop(self)
        try:
            while True:
                while self._ready:
                    h = self._ready.popleft()
                    if not h._cancelled:
                        h._run()
                        self.steps += 1
                        if self.steps > max_steps:
                            raise StepBudget("event loop exceeded %d steps" % max_steps)
                if until is not None and until():
                    return
                while self._timers and self._timers[0]._cancelled:
                    self._timers.pop(0)
                if not self._timers:
                    return
                h = self._timers.pop(0)
                if h._when > self._now:
                    self._now = h._when
                self._ready.append(h)
                # like BaseEventLoop._run_once: every timer that is due now becomes ready in the same iteration
                while self._timers and (self._timers[0]._cancelled or self._timers[0]._when <= self._now):
                    h2 = self._timers.pop(0)
                    if not h2._cancelled:
                        self._ready.append(h2)
        finally:
            events._set_running_loop(None)
