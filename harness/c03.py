"""C03 - failing actions are contained and rails fail closed.

Real code: ActionDispatcher.execute_action (exception -> (None, "failed")), RuntimeV1_0._process_start_action (internal-error ActionResult + hide_prev_turn),
RuntimeV2_x._process_start_action / _run_action, the rails flows (llm_flows.co, library/guardrails.co), LLMRails.generate_async over two turns.
"""
from harness import rails
from harness.common import conc, sl
from vlib import stubs

FUNCTIONS = [
    "nemoguardrails.actions.action_dispatcher.ActionDispatcher.execute_action",
    "nemoguardrails.colang.v1_0.runtime.runtime.RuntimeV1_0._process_start_action / generate_events",
    "nemoguardrails.colang.v1_0.runtime.flows.compute_next_steps (hide_prev_turn)",
    "nemoguardrails.colang.v2_x.runtime.runtime.RuntimeV2_x._process_start_action / _run_action / process_events",
    "nemoguardrails/rails/llm/llm_flows.co and nemoguardrails/colang/v2_x/library/guardrails.co (rails flows)",
    "nemoguardrails.rails.llm.llmrails.LLMRails.generate_async",
]
LAST_INFO = None
VER = sl("ver", "1.0")
TURNS = int(sl("turns", 2))
FIX = sl("fix", {})
INTERNAL = "I'm sorry, an internal error has occurred."


def _fixed(**kw):
    for k, v in kw.items():
        if k in FIX and v != FIX[k]:
            return False
    return True


COLANG_V1 = '''
define user ask question
  "tell me something"

define flow answer
  user ask question
  $d = execute dialog_action
  bot respond

define bot refuse in
  "REFUSED_IN"

define bot refuse out
  "REFUSED_OUT"

define subflow in rail
  $allowed = execute in1(text=$user_message)
  if not $allowed
    bot refuse in
    stop

define subflow out rail
  $allowed = execute out1(text=$bot_message)
  if not $allowed
    bot refuse out
    stop
'''
YAML_V1 = "rails:\n  input:\n    flows:\n      - in rail\n  output:\n    flows:\n      - out rail\n"

COLANG_V2 = '''
import core
import guardrails

flow input rails $input_text
  $ok = await In1Action(text=$input_text)
  if not $ok
    bot say "REFUSED_IN"
    abort

flow output rails $output_text
  $ok = await Out1Action(text=$output_text)
  if not $ok
    bot say "REFUSED_OUT"
    abort

flow main
  activate answering

flow answering
  user said something as $u
  $reply = await DialogAction()
  bot say $reply
'''


class Rec:
    count = 0
    bare = False
    faults = []
    log = []
    turn = 0


class Boom(Exception):
    pass


def _tick(name, text):
    idx = Rec.count
    Rec.count += 1
    Rec.log.append((name, text, idx))
    for f in Rec.faults:
        if f == idx:
            Rec.log.append(("raised", name, idx))
            if Rec.bare:
                raise Boom()  # an exception without arguments (bare assert, timeout, `raise MyError()`)
            raise Boom("injected fault in %s (invocation %d)" % (name, idx))


async def in1(text=None, **kw):
    _tick("in1", text)
    return True


async def out1(text=None, **kw):
    _tick("out1", text)
    return True


async def dialog_action(**kw):
    _tick("dialog", None)
    return "LLM text %d" % (Rec.turn + 1) if VER != "1.0" else 1


if VER == "1.0":
    APP, LLM = rails.build(COLANG_V1, YAML_V1, {"in1": in1, "out1": out1, "dialog_action": dialog_action})
else:
    APP, LLM = rails.build(COLANG_V2, "", {"In1Action": in1, "Out1Action": out1, "DialogAction": dialog_action}, colang_version="2.x")
    rails.install_handover()


def _llm_text(t):
    return "LLM says hi %d" % (t + 1)


def contained(f1: int, f2: int, bare: bool = False) -> bool:
    """
    f1, f2: global indices (over the whole conversation) of the harness-action invocations that raise (>= number of invocations: no fault); bare: the exception carries no arguments.
    Every turn returns normally; a turn with a fault answers with a refusal or the internal-error text and never with the unchecked text; in the next turn all rails run again.
    pre: 0 <= f1 <= 7 and 0 <= f2 <= 7 and f1 <= f2
    pre: _fixed(f1=f1, f2=f2)
    post: _
    """
    global LAST_INFO
    stubs.reset()
    rails.reset_app(APP)
    Rec.count = 0
    Rec.faults = [f1, f2]
    Rec.bare = True if bare else False
    messages = []
    state = None
    why = None
    info = []
    for t in range(TURNS):
        Rec.turn = t
        Rec.log = []
        LLM.reset(script=["  ask question", '  "%s"' % _llm_text(t)] if VER == "1.0" else [])
        unchecked = _llm_text(t) if VER == "1.0" else "LLM text %d" % (t + 1)
        try:
            if VER == "1.0":
                messages = messages + [{"role": "user", "content": "tell me something"}]
                reply = rails.generate(APP, messages)
                contents = [reply.get("content")]
                messages = messages + [reply if reply.get("role") == "assistant" else {"role": "assistant", "content": "(blocked)"}]
            else:
                res = rails.generate(APP, [{"role": "user", "content": "hi %d" % t}], state=({} if state is None else state))
                state = res.state
                contents = [m.get("content") for m in res.response]
        except rails.Escaped as e:
            why = "turn %d: generate raised %s" % (t + 1, e)
            break
        raised = [e for e in Rec.log if e[0] == "raised"]
        names = [e[0] for e in Rec.log if e[0] != "raised"]
        if raised:
            which = raised[0][1]
            for c in contents:
                if c is not None and unchecked in str(c):
                    why = "the text guarded by the failed action %s reached the response: %r" % (which, contents)
            if why is None and which in ("in1", "out1"):
                ok = [c for c in contents if c in (INTERNAL, "REFUSED_IN", "REFUSED_OUT")]
                if not ok or len(contents) != len(ok):
                    why = "a failed rail action (%s) must give a refusal or the internal-error message, got %r" % (which, contents)
        else:
            if names != ["in1", "dialog", "out1"]:
                why = "fault-free turn: actions ran %s, expected in1, dialog, out1 (all rails active)" % names
            elif contents != [unchecked]:
                why = "fault-free turn: expected %r, got %r" % (unchecked, contents)
        if not rails.is_tracing():
            info.append({"actions": list(Rec.log), "reply": contents})
        if why:
            why = "turn %d: %s" % (t + 1, why)
            break
    if not rails.is_tracing():
        LAST_INFO = {"faults": [int(f1), int(f2)], "exception_without_args": bool(bare), "turns": info, "why": why}
    return why is None


def internal_twin(f1: int, f2: int) -> bool:
    """
    Twin: claims no reply ever equals the internal-error text / a refusal (must be refuted).
    pre: 0 <= f1 <= 7 and f2 == 7
    post: _
    """
    stubs.reset()
    rails.reset_app(APP)
    Rec.count = 0
    Rec.faults = [f1, f2]
    Rec.turn = 0
    Rec.log = []
    LLM.reset(script=["  ask question", '  "%s"' % _llm_text(0)] if VER == "1.0" else [])
    if VER == "1.0":
        reply = rails.generate(APP, [{"role": "user", "content": "tell me something"}])
        return reply.get("content") != INTERNAL
    res = rails.generate(APP, [{"role": "user", "content": "hi"}], state={})
    return not any(m.get("content") in (INTERNAL, "REFUSED_IN", "REFUSED_OUT") for m in res.response)


SPEC = {
    "property": "C03",
    "functions": FUNCTIONS,
    "bounds": "configuration with one input rail action, one dialog action and one output rail action (verdicts fixed to accept: would the unchecked text get out?); conversations of 2 (thorough 3) turns; "
              "one or two injected faults at symbolic global invocation indices 0..7 (every call site of every turn, or none); Colang 1.0 (shipped llm_flows.co) and Colang 2.x (library/guardrails.co)",
    "outside": "LLMCallException / provider failures (excluded by the property); faults inside the library's own LLM actions; more than two faults",
    "assumptions": ["FakeLLM / StubVec / VLoop as in C01", "v2: `handover` stub for the state between turns; the dialog action stands for the LLM"],
    "explanation": "Oracle per turn: generate returns; if an action raised in this turn, the text it was guarding (the turn's LLM text) is not in the response, and for a rail action the response is a refusal or the "
                   "fixed internal-error message; a fault-free turn (in particular the turn after a fault) runs in1, dialog, out1 in that order and returns the checked text.",
    "conditions": [
        {"fn": "contained", "tiers": ("quick",), "slices": [{"ver": "1.0", "turns": 2, "fix": {"f1": f, "f2": 7}} for f in range(8)], "tcond": 900, "tpath": 180, "bound": "v1, 2 turns, single fault",
         "smoke": [{"slice": {"ver": "1.0", "turns": 3}, "args": dict(f1=2, f2=4)}, {"slice": {"ver": "1.0", "turns": 2}, "args": dict(f1=0, f2=7)}]},
        {"fn": "contained", "tiers": ("quick",), "slices": [{"ver": "2.x", "turns": 2, "fix": {"f1": f, "f2": 7}} for f in range(8)], "tcond": 900, "tpath": 180, "bound": "v2, 2 turns, single fault",
         "smoke": [{"slice": {"ver": "2.x", "turns": 3}, "args": dict(f1=2, f2=7)}, {"slice": {"ver": "2.x", "turns": 2}, "args": dict(f1=0, f2=7)}]},
        {"fn": "contained", "tiers": ("thorough",), "slices": [{"ver": v, "turns": 3, "fix": {"f1": f}} for v in ("1.0", "2.x") for f in range(8)], "tcond": 3000, "tpath": 240, "bound": "3 turns, pairs of faults"},
        {"fn": "internal_twin", "expect": "counterexample", "slices": [{"ver": "1.0", "turns": 1}, {"ver": "2.x", "turns": 1}], "tcond": 600, "tpath": 120, "bound": "twin"},
    ],
}
