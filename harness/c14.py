"""C14 - Colang 1.0 dialog flows are followed like structured programs.

Real code: compute_next_steps, compute_next_state, _slide_with_subflows, _call_subflow, slide, v1 eval_expression;
the flows are produced by the real Colang 1.0 parser (parse_colang_file -> coyml) and RuntimeV1_0._load_flow_config, once per program.
"""
import copy

import harness.common  # noqa: F401
from harness.common import conc, sl
from vlib import stubs

from nemoguardrails.colang import parse_colang_file
from nemoguardrails.colang.v1_0.runtime import flows as f1
from nemoguardrails.colang.v1_0.runtime.flows import compute_next_steps
from nemoguardrails.colang.v1_0.runtime.runtime import RuntimeV1_0

stubs.install()
try:
    from crosshair.tracers import NoTracing, is_tracing
except ImportError:  # pragma: no cover
    NoTracing = None

    def is_tracing():
        return False

class Diverged(BaseException):
    """slide() evaluated more expressions for one decision than any terminating run of the catalogue programs needs."""


class _Budget:
    n = 0
    limit = 3000


import nemoguardrails.colang.v1_0.runtime.sliding as _sliding  # noqa: E402

_orig_eval = _sliding.eval_expression


def _counted_eval(expr, context):
    _Budget.n += 1
    if _Budget.n > _Budget.limit:
        raise Diverged("more than %d expression evaluations in one compute_next_steps call" % _Budget.limit)
    return _orig_eval(expr, context)


_sliding.eval_expression = _counted_eval
_orig_cns = compute_next_steps


def compute_next_steps(history, flow_configs, rails_config, processing_log):  # noqa: F811
    _Budget.n = 0
    return _orig_cns(history, flow_configs, rails_config, processing_log)


FUNCTIONS = [
    "nemoguardrails.colang.v1_0.runtime.flows.compute_next_steps",
    "nemoguardrails.colang.v1_0.runtime.flows.compute_next_state",
    "nemoguardrails.colang.v1_0.runtime.flows._slide_with_subflows / _call_subflow / _record_next_step / _is_match",
    "nemoguardrails.colang.v1_0.runtime.sliding.slide",
    "nemoguardrails.colang.v1_0.runtime.eval.eval_expression",
    "nemoguardrails.colang.v1_0.lang (parser + coyml_parser: once per program, untraced)",
]
LAST_INFO = None

# ---- programs as small ASTs -------------------------------------------------------------------------------------------
# statements: ("user", intent) ("bot", intent) ("set", var, expr) ("if", cond, then, else) ("while", cond, body) ("break",) ("continue",)
#             ("do", subflow) ("exec", action, result var or None)
# expr: ("const", c) ("var", v) ("add", v, c);  cond: (op, var, const) with op in lt, gt, eq, ne  or ("and", c1, c2) / ("not", c)


def U(i):
    return ("user", i)


def B(i):
    return ("bot", i)


PROGRAMS = {
    "seq": {"main": [U("greet"), B("hello"), B("ask name"), U("give name"), B("thanks")]},
    "if_else": {"main": [U("greet"), ("if", ("lt", "x", 2), [B("low")], [B("high")]), B("after")]},
    "nested_if": {"main": [U("greet"), ("if", ("gt", "x", 0), [("if", ("eq", "y", 1), [B("a")], [B("b")]), B("c")], [B("d")]), U("bye"), B("end")]},
    "if_no_else": {"main": [U("greet"), ("if", ("eq", "x", 3), [B("three")], []), B("after")]},
    "set_use": {"main": [U("greet"), ("set", "n", ("add", "x", 1)), ("if", ("gt", "n", 2), [B("big")], [B("small")]), ("set", "x", ("const", 0)), B("done")]},
    "while_counter": {"main": [U("greet"), ("set", "n", ("var", "x")), ("while", ("lt", "n", 3), [B("ask"), U("answer"), ("set", "n", ("add", "n", 1))]), B("finished")]},
    "while_break": {"main": [U("greet"), ("set", "n", ("const", 0)), ("while", ("lt", "n", 3), [B("ask"), U("answer"), ("if", ("eq", "n", 1), [("break",)], []), ("set", "n", ("add", "n", 1))]), B("out")]},
    "while_continue": {"main": [U("greet"), ("set", "n", ("var", "y")), ("while", ("lt", "n", 2), [("set", "n", ("add", "n", 1)), ("if", ("eq", "x", 1), [("continue",)], []), B("body")]), B("out")]},
    "subflow": {"main": [U("greet"), ("do", "helper"), B("after sub")], "helper": [B("sub one"), ("if", ("eq", "y", 1), [B("sub two")], [])]},
    "subflow_user": {"main": [U("greet"), ("do", "helper"), B("after sub"), ("do", "helper"), B("end")], "helper": [B("sub ask"), U("sub answer"), ("set", "x", ("add", "x", 1))]},
    "subflow_empty": {"main": [U("greet"), ("do", "helper"), B("after sub")], "helper": [("set", "z", ("const", 7)), ("if", ("eq", "x", 9), [B("never")], [])]},
    "exec_result": {"main": [U("greet"), ("exec", "lookup", "r"), ("if", ("eq", "r", 1), [B("one")], [B("other")]), ("exec", "log", None), B("done")]},
    "exec_loop": {"main": [U("greet"), ("set", "ok", ("const", 0)), ("while", ("eq", "ok", 0), [("exec", "probe", "ok"), B("probed")]), B("done")]},
    "if_in_while": {"main": [U("greet"), ("set", "n", ("const", 0)), ("while", ("lt", "n", 2), [("if", ("eq", "x", "n"), [B("match")], [B("nomatch")]), ("set", "n", ("add", "n", 1))]), U("bye"), B("end")]},
    "nested_while": {"main": [U("greet"), ("set", "i", ("const", 0)), ("set", "t", ("const", 0)),
                              ("while", ("lt", "i", 2), [("set", "j", ("const", 0)),
                                                         ("while", ("lt", "j", 3), [("if", ("eq", "j", "x"), [("break",)], []), ("set", "j", ("add", "j", 1)), ("set", "t", ("add", "t", 1)),
                                                                                    ("if", ("eq", "y", 1), [("continue",)], []), B("inner")]),
                                                         ("set", "i", ("add", "i", 1)), B("outer")]),
                              B("finished")]},
    # the flow starts with logic over context variables (evaluated when the flow is started)
    "leading_if": {"main": [("if", ("gt", "x", 1), [U("greet"), B("vip")], [U("greet"), B("plain")]), B("after")]},
    "leading_set": {"main": [("set", "n", ("add", "x", 1)), U("greet"), ("if", ("gt", "n", 2), [B("big")], [B("small")])]},
    "and_cond": {"main": [U("greet"), ("if", ("and", ("gt", "x", 0), ("eq", "y", 1)), [B("both")], [B("not both")]), ("if", ("not", ("lt", "x", 2)), [B("ge2")], []), B("fin")]},
}
OPS = {"lt": "<", "gt": ">", "eq": "==", "ne": "!="}


def cond_src(c):
    if c[0] == "and":
        return "(%s) and (%s)" % (cond_src(c[1]), cond_src(c[2]))
    if c[0] == "not":
        return "not (%s)" % cond_src(c[1])
    rhs = "$%s" % c[2] if isinstance(c[2], str) else str(c[2])
    return "$%s %s %s" % (c[1], OPS[c[0]], rhs)


def expr_src(e):
    if e[0] == "const":
        return str(e[1])
    if e[0] == "var":
        return "$%s" % e[1]
    return "$%s + %d" % (e[1], e[2])


def render_block(block, ind):
    out = []
    pad = "  " * ind
    for s in block:
        k = s[0]
        if k in ("user", "bot"):
            out.append("%s%s %s" % (pad, k, s[1]))
        elif k == "set":
            out.append("%s$%s = %s" % (pad, s[1], expr_src(s[2])))
        elif k == "if":
            out.append("%sif %s" % (pad, cond_src(s[1])))
            out += render_block(s[2], ind + 1)
            if s[3]:
                out.append("%selse" % pad)
                out += render_block(s[3], ind + 1)
        elif k == "while":
            out.append("%swhile %s" % (pad, cond_src(s[1])))
            out += render_block(s[2], ind + 1)
        elif k in ("break", "continue"):
            out.append(pad + k)
        elif k == "do":
            out.append("%sdo %s" % (pad, s[1]))
        elif k == "exec":
            out.append("%s%sexecute %s" % (pad, ("$%s = " % s[2]) if s[2] else "", s[1]))
    return out


def render(prog):
    lines = []
    for name, body in prog.items():
        lines.append("define %s %s" % ("flow" if name == "main" else "subflow", name))
        lines += render_block(body, 1)
        lines.append("")
    return "\n".join(lines)


# ---- reference interpreter (generator) -------------------------------------------------------------------------------
class _Break(Exception):
    pass


class _Continue(Exception):
    pass


def ev_cond(c, ctx):
    if c[0] == "and":
        return ev_cond(c[1], ctx) and ev_cond(c[2], ctx)
    if c[0] == "not":
        return not ev_cond(c[1], ctx)
    a = ctx.get(c[1])
    b = ctx.get(c[2]) if isinstance(c[2], str) else c[2]
    if c[0] == "lt":
        return a < b
    if c[0] == "gt":
        return a > b
    if c[0] == "eq":
        return a == b
    return a != b


def ev_expr(e, ctx):
    if e[0] == "const":
        return e[1]
    if e[0] == "var":
        return ctx.get(e[1])
    return ctx.get(e[1]) + e[2]


def ref_block(prog, block, ctx):
    for s in block:
        k = s[0]
        if k == "user":
            said = None
            while said != s[1]:
                said = yield ("user", s[1])
        elif k == "bot":
            yield ("bot", s[1])
        elif k == "set":
            ctx[s[1]] = ev_expr(s[2], ctx)
        elif k == "if":
            yield from ref_block(prog, s[2] if ev_cond(s[1], ctx) else s[3], ctx)
        elif k == "while":
            while ev_cond(s[1], ctx):
                try:
                    yield from ref_block(prog, s[2], ctx)
                except _Break:
                    break
                except _Continue:
                    continue
        elif k == "break":
            raise _Break()
        elif k == "continue":
            raise _Continue()
        elif k == "do":
            yield from ref_block(prog, prog[s[1]], ctx)
        elif k == "exec":
            val = yield ("action", s[1], s[2])
            if s[2]:
                ctx[s[2]] = val


def ref_main(prog, ctx):
    while True:  # a completed dialog flow can be started again by its first user intent
        yield from ref_block(prog, prog["main"], ctx)


# ---- real code ---------------------------------------------------------------------------------------------------------
PROG = sl("prog", "if_else")
DECOY_X = int(sl("decoy_x", 0))
STEPS = int(sl("steps", 6))
P = PROGRAMS[PROG]
SRC = render(P)


class _Holder:
    def __init__(self):
        self.flow_configs = {}


def _load(src):
    flows = parse_colang_file("prog.co", src, version="1.0")["flows"]
    h = _Holder()
    for fl in flows:
        RuntimeV1_0._load_flow_config(h, fl)
    return h.flow_configs


_PRISTINE = _load(SRC)


def _untraced():
    import contextlib

    if NoTracing is not None and is_tracing():
        return NoTracing()
    return contextlib.nullcontext()


def _actionable(steps):
    return [s for s in steps if s["type"] != "ContextUpdate"]


def _strip(steps):
    return [{k: v for k, v in s.items() if k not in ("uid", "event_created_at", "source_uid", "action_uid")} for s in steps]


def _decoy(used, x2, y2):
    """An unrelated conversation (other context values) decided on the same flow configuration object before the real one:
    the real decisions must not depend on it ("a function of the event history alone")."""
    hist = [{"type": "ContextUpdate", "data": {"x": x2, "y": y2}}, {"type": "UserIntent", "intent": "greet"}]
    compute_next_steps(hist, used, None, [])
    hist.append({"type": "UserIntent", "intent": "something else"})
    compute_next_steps(hist, used, None, [])


def follows(x: int, y: int, r0: int, r1: int, r2: int, u0: int, u1: int, u2: int, u3: int) -> bool:
    """
    For a dialog that follows the program (the user may also say an unrelated intent at any of its turns), the next step decided by the runtime after
    every event equals the next statement of the structured program under the reference interpreter; the decision does not depend on the flow
    configuration object having been used before.
    pre: 0 <= x <= 3 and 0 <= y <= 1 and 0 <= r0 <= 2 and 0 <= r1 <= 2 and 0 <= r2 <= 2
    pre: 0 <= u0 <= 1 and 0 <= u1 <= 1 and 0 <= u2 <= 1 and 0 <= u3 <= 1
    post: _
    """
    global LAST_INFO
    try:
        return _follows(x, y, r0, r1, r2, u0, u1, u2, u3)
    except Diverged as e:
        if not is_tracing():
            LAST_INFO = {"program": SRC, "context": {"x": x, "y": y}, "why": "the decision does not terminate: %s" % e}
        return False


def _follows(x, y, r0, r1, r2, u0, u1, u2, u3):
    global LAST_INFO
    stubs.reset()
    with _untraced():
        used = copy.deepcopy(_PRISTINE)
        _decoy(used, 3 - DECOY_X, 1)  # natively: an earlier, different conversation on the same instance
        _decoy(used, DECOY_X, 0)
    ctx = {"x": x, "y": y}
    ref = ref_main(P, ctx)
    hist = [{"type": "ContextUpdate", "data": {"x": x, "y": y}}]
    rets = [r0, r1, r2]
    users = [u0, u1, u2, u3]
    trace = []
    why = None
    exp = next(ref)
    for _ in range(STEPS):
        try:
            steps = compute_next_steps(hist, used, None, [])
        except Diverged as e:
            why = "the decision does not terminate: %s" % e
            break
        act = _actionable(steps)
        # the runtime feeds context updates back into the history before acting
        for s in steps:
            if s["type"] == "ContextUpdate":
                hist.append(s)
        if exp[0] == "user":
            if act:
                why = "runtime decided %s while the program waits for the user" % _strip(act)
                break
            off = users.pop(0) if users else 0
            if off == 1:
                hist.append({"type": "UserIntent", "intent": "something else"})
                trace.append("user: something else")
                exp = ref.send("something else")
            else:
                hist.append({"type": "UserIntent", "intent": exp[1]})
                trace.append("user: " + exp[1])
                exp = ref.send(exp[1])
        elif exp[0] == "bot":
            if len(act) != 1 or act[0]["type"] != "BotIntent" or act[0]["intent"] != exp[1]:
                why = "expected bot %s, runtime decided %s" % (exp[1], _strip(act))
                break
            hist.append({"type": "BotIntent", "intent": exp[1]})
            trace.append("bot: " + exp[1])
            exp = next(ref)
        else:
            if len(act) != 1 or act[0]["type"] != "StartInternalSystemAction" or act[0]["action_name"] != exp[1] or act[0].get("action_result_key") != exp[2]:
                why = "expected execute %s -> %s, runtime decided %s" % (exp[1], exp[2], _strip(act))
                break
            val = rets.pop(0) if rets else 0
            hist.append({"type": "StartInternalSystemAction", "action_name": exp[1], "action_params": {}, "action_result_key": exp[2]})
            if exp[2]:
                hist.append({"type": "ContextUpdate", "data": {exp[2]: val}})
            hist.append({"type": "InternalSystemActionFinished", "action_name": exp[1], "status": "success", "return_value": val, "action_params": {}, "action_result_key": exp[2], "events": [], "is_success": True})
            trace.append("execute %s" % exp[1])
            exp = ref.send(val)
    if why is None:
        # history determinism: the used configuration object and a pristine one decide the same
        with _untraced():
            fresh = copy.deepcopy(_PRISTINE)
        a = _strip(compute_next_steps(hist, used, None, []))
        b = _strip(compute_next_steps(hist, fresh, None, []))
        if a != b:
            why = "decision depends on earlier calls: used config -> %s, fresh config -> %s" % (a, b)
    if not is_tracing():
        LAST_INFO = {"program": SRC, "context": {"x": x, "y": y}, "dialog": trace, "why": why}
    return why is None


def follows_twin(x: int, y: int, r0: int, r1: int, r2: int, u0: int, u1: int, u2: int, u3: int) -> bool:
    """
    Twin: claims the else-branch / loop exit is never taken (refuted: both branches are reachable).
    pre: 0 <= x <= 3 and 0 <= y <= 1 and 0 <= r0 <= 2 and 0 <= r1 <= 2 and 0 <= r2 <= 2
    pre: 0 <= u0 <= 1 and 0 <= u1 <= 1 and 0 <= u2 <= 1 and 0 <= u3 <= 1
    post: _
    """
    stubs.reset()
    with _untraced():
        used = copy.deepcopy(_PRISTINE)
    hist = [{"type": "ContextUpdate", "data": {"x": x, "y": y}}, {"type": "UserIntent", "intent": "greet"}]
    steps = _actionable(compute_next_steps(hist, used, None, []))
    return not (steps and steps[0].get("intent") == "high")


ALL = sorted(PROGRAMS)
SPEC = {
    "property": "C14",
    "functions": FUNCTIONS,
    "bounds": "18 catalogue programs over {user, bot, set, if/else (nested, without else, and/not conditions), while with counter, nested while with inner break/continue, break, continue, flows that start with an if / an assignment, do subflow (with user turns, called twice, finishing "
              "immediately), execute with and without result}; initial context x in 0..3, y in 0..1, action return values in 0..2 (all symbolic); at each user turn the user follows the flow or says "
              "an unrelated intent (symbolic); dialogs of 6 (quick) / 9 (thorough) decision points, each decision recomputed from the whole history",
    "outside": "competing intents / several dialog flows / flow priorities (C01, C16 exercise the shipped flows); when/else when; flows with parameters",
    "assumptions": ["a decision that evaluates more than 3000 expressions (the catalogue needs < 100) is reported as non-terminating", "programs are generated from small ASTs, rendered to Colang 1.0 text and parsed by the real parser once per program (untraced)",
                    "context updates decided by the runtime are appended to the history as RuntimeV1_0.generate_events does"],
    "explanation": "Before the real dialog two unrelated conversations with other context values are decided on the same flow_configs object. Oracle: a generator-based reference interpreter of the program AST (sequencing, if/else, while/break/continue, assignment, subflow call inlined, execute with result); "
                   "after every event the runtime's actionable next step must be the reference's next statement (none while waiting for the user); finally compute_next_steps on the used "
                   "flow_configs equals compute_next_steps on a fresh copy.",
    "conditions": [
        {"fn": "follows", "tiers": ("quick",), "slices": [{"prog": p, "steps": 6} for p in ALL], "tcond": 900, "tpath": 60, "bound": "6 decision points",
         "smoke": [{"slice": {"prog": "while_break", "steps": 9}, "args": dict(x=1, y=0, r0=0, r1=0, r2=0, u0=0, u1=1, u2=0, u3=0)},
                   {"slice": {"prog": "subflow_user", "steps": 9}, "args": dict(x=0, y=1, r0=0, r1=0, r2=0, u0=0, u1=0, u2=1, u3=0)},
                   {"slice": {"prog": "exec_loop", "steps": 9}, "args": dict(x=0, y=0, r0=0, r1=0, r2=1, u0=0, u1=0, u2=0, u3=0)}]},
        {"fn": "follows", "tiers": ("thorough",), "slices": [{"prog": p, "steps": 9} for p in ALL], "tcond": 3000, "tpath": 60, "bound": "9 decision points"},
        {"fn": "follows_twin", "expect": "counterexample", "slices": [{"prog": "if_else"}], "tcond": 300, "tpath": 30, "bound": "twin"},
    ],
}
