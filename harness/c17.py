"""C17 - arbitrary LLM output never breaks a turn and is treated as data (Colang 1.0 part).

(a) the post-processing helpers every LLM completion goes through, on genuinely symbolic strings;
(c) the real LLMRails.generate_async with a hostile completion at a symbolic call position (intent / next step / bot message, single-call mode, value generation).
"""
from harness import rails
from harness.common import conc, sl
from vlib import stubs

from nemoguardrails.actions.llm.utils import (
    get_first_bot_action,
    get_first_bot_intent,
    get_first_nonempty_line,
    get_first_user_intent,
    get_initial_actions,
    get_multiline_response,
    get_top_k_nonempty_lines,
    remove_action_intent_identifiers,
    strip_quotes,
)
from nemoguardrails.llm.output_parsers import bot_intent_parser, bot_message_parser, user_intent_parser, verbose_v1_parser

FUNCTIONS = [
    "nemoguardrails.actions.llm.utils.get_first_nonempty_line / get_top_k_nonempty_lines / strip_quotes / get_multiline_response",
    "nemoguardrails.actions.llm.utils.remove_action_intent_identifiers / get_initial_actions / get_first_user_intent / get_first_bot_intent / get_first_bot_action",
    "nemoguardrails.llm.output_parsers.user_intent_parser / bot_intent_parser / bot_message_parser / verbose_v1_parser",
    "nemoguardrails.actions.llm.generation.LLMGenerationActions.generate_user_intent / generate_next_step / generate_bot_message / generate_value / generate_intent_steps_message",
    "nemoguardrails.rails.llm.llmrails.LLMRails.generate_async; RuntimeV1_0.generate_events (dynamic flows from multi-step generation)",
]
LAST_INFO = None
MODE = sl("mode", "plain")  # plain: three LLM calls per turn; single: single_call mode; value: `$name = ...` value generation
POS = int(sl("pos", 0))  # which LLM call of the turn returns the hostile text
PART = sl("part")  # helpers_total: 0 = line helpers, 1 = intent/action helpers and parsers, None = all
FIX2 = sl("fix2")  # quick tier: the third token is the empty string
FIRST = sl("first")  # thorough tier: partition on the first token


# ---- (a) helpers on symbolic strings --------------------------------------------------------------------------------------
def helpers_total(s: str) -> bool:
    """
    For every string of up to 4 code points: none of the helpers raises, results have the documented type and the simple laws hold
    (first non-empty line is a stripped, non-empty part of the input; strip_quotes / parsers never lengthen beyond the fixed prefix replacement; ...).
    pre: len(s) <= 4
    post: _
    """
    global LAST_INFO
    why = None
    if PART in (None, 0):
        why = _lines_part(s)
    if PART in (None, 1) and why is None:
        why = _parsers_part(s)
    if not rails.is_tracing():
        LAST_INFO = {"input": s, "why": why}
    return why is None


def _lines_part(s):
    why = None
    first = get_first_nonempty_line(s)
    if first is not None and (len(first) == 0 or first != first.strip() or first not in s):
        why = "get_first_nonempty_line(%r) = %r" % (s, first)
    top = get_top_k_nonempty_lines(s, 2)
    if top is not None:
        if not isinstance(top, list) or len(top) > 2:
            why = "get_top_k_nonempty_lines(%r, 2) = %r" % (s, top)
        for line in top:
            if len(line) == 0 or line[0] == "#" or line not in s:
                why = "get_top_k_nonempty_lines(%r, 2) = %r" % (s, top)
    q = strip_quotes(s)
    if not isinstance(q, str) or q not in s or len(q) > len(s):
        why = "strip_quotes(%r) = %r" % (s, q)
    m = get_multiline_response(s)
    if not isinstance(m, str) or len(m) > len(s):
        why = "get_multiline_response(%r) = %r" % (s, m)
    return why


def _parsers_part(s):
    why = None
    lines = s.split("\n")
    r = remove_action_intent_identifiers(lines)
    if len(r) != len(lines):
        why = "remove_action_intent_identifiers changed the number of lines"
    ia = get_initial_actions(lines)
    if len(ia) > len(lines) or "" in ia:
        why = "get_initial_actions(%r) = %r" % (lines, ia)
    for fn in (get_first_user_intent, get_first_bot_intent):
        v = fn(lines)
        if v is not None and not isinstance(v, str):
            why = "%s returned %r" % (fn.__name__, v)
    a = get_first_bot_action(lines)
    if not isinstance(a, str):
        why = "get_first_bot_action returned %r" % (a,)
    for fn in (user_intent_parser, bot_intent_parser, bot_message_parser, verbose_v1_parser):
        v = fn(s)
        if not isinstance(v, str) or len(v) > len(s):
            why = "%s(%r) = %r" % (fn.__name__, s, v)
    return why


def prefixed_total(k: int, s: str) -> bool:
    """
    The same with the completion prefixes the prompts ask for in front of a symbolic rest: parsers strip exactly the prefix.
    pre: 0 <= k <= 4 and len(s) <= 3
    post: _
    """
    global LAST_INFO
    prefix = ["User intent: ", "Bot intent: ", "Bot message: ", "bot intent: ", "user intent: "][conc(k, 0, 4)]
    text = prefix + s
    why = None

    def ref(pfx, repl):  # the statement of the parsers: strip, then replace the prefix if present and strip the rest
        t = text.strip()
        if t.startswith(pfx):
            return repl + t[len(pfx):].strip()
        return t

    if user_intent_parser(text) != ref("User intent: ", "  "):
        why = "user_intent_parser(%r) = %r" % (text, user_intent_parser(text))
    if bot_intent_parser(text) != ref("Bot intent: ", "bot "):
        why = "bot_intent_parser(%r) = %r" % (text, bot_intent_parser(text))
    if bot_message_parser(text) != ref("Bot message: ", "  "):
        why = "bot_message_parser(%r) = %r" % (text, bot_message_parser(text))
    lines = text.split("\n")
    ui = get_first_user_intent(lines)
    if prefix == "user intent: ":
        if ui is None or not isinstance(ui, str):
            why = "get_first_user_intent(%r) = %r" % (lines, ui)
    bi = get_first_bot_intent(lines)
    if prefix == "bot intent: " and (bi is None or not isinstance(bi, str)):
        why = "get_first_bot_intent(%r) = %r" % (lines, bi)
    if not rails.is_tracing():
        LAST_INFO = {"input": text, "why": why}
    return why is None


# ---- (c) pipeline ---------------------------------------------------------------------------------------------------------------
ALPHABET = ["", " ", "\n", '"', "{{ x }}", "$user_message", "user ", "bot ", "  ", "#", ":", "a", "execute f", "{% if %}", "...", "\\", "if $y", "\n  ",
            "do x", "label a", "goto a", "break", "else", "stop", "define user u", "$z = 1/0", "when "]
TEMPLATES = ["{{ config }}", "{{ 7*7 }}", "$user_message", "{% for a in b %}", "$last_user_message"]

COLANG_PLAIN = '''
define user express greeting
  "hello"

define bot express greeting
  "Hello there!"

define flow greeting
  user express greeting
  bot express greeting
'''
COLANG_VALUE = '''
define user express greeting
  "hello"

define flow greeting
  user express greeting
  # Extract the name of the user
  $name = ...
  bot say name

define bot say name
  "Your name is $name"
'''
if MODE in ("general", "passthrough"):
    # no user messages defined: a single general LLM call answers the user (passthrough: the raw request is sent)
    APP, LLM = rails.build("", "passthrough: True\n" if MODE == "passthrough" else "")
    GOOD = ["An answer"]
    USER = "tell me a joke"
elif MODE == "multistep":
    APP, LLM = rails.build(COLANG_PLAIN, "enable_multi_step_generation: True\n")
    GOOD = ["  ask joke", "bot tell joke", '  "A joke"']
    USER = "tell me a joke"
elif MODE == "single":
    APP, LLM = rails.build(COLANG_PLAIN, "rails:\n  dialog:\n    single_call:\n      enabled: True\n")
    GOOD = ['  ask joke\nbot tell joke\n  "A joke"']
    USER = "tell me a joke"
elif MODE == "value":
    APP, LLM = rails.build(COLANG_VALUE, "")
    GOOD = ["  express greeting", '"John"']
    USER = "hello"
else:
    APP, LLM = rails.build(COLANG_PLAIN, "")
    GOOD = ["  ask joke", "  bot tell joke", '  "A joke"']
    USER = "tell me a joke"


EVAL_ERR = ALPHABET.index("$z = 1/0")


def _in_known_region(k0, k1, k2):
    """Known finding C17-multistep-eval-error: in multi-step generation a generated statement whose expression raises when it is evaluated
    (here the token `$z = 1/0`) makes generate raise. Completions containing that token at the next-step call are excluded from hostile_turn
    and checked by hostile_known_region instead."""
    return MODE == "multistep" and POS == 1 and (k0 == EVAL_ERR or k1 == EVAL_ERR or k2 == EVAL_ERR)


def region_multistep_eval_error(slice_, a):
    return slice_.get("mode") == "multistep" and int(slice_.get("pos", 0)) == 1 and EVAL_ERR in (a["k0"], a["k1"], a["k2"])


def _well_formed(r):
    if not isinstance(r, dict):
        return False
    if r.get("role") == "assistant":
        return isinstance(r.get("content"), str)
    if r.get("role") == "exception":
        return isinstance(r.get("content"), dict)
    return False


def hostile_turn(k0: int, k1: int, k2: int) -> bool:
    """
    The LLM call number POS of the turn returns ALPHABET[k0] + ALPHABET[k1] + ALPHABET[k2]; the other calls return ordinary completions:
    generate completes with a well-formed assistant (or rail-exception) message and never raises.
    pre: 0 <= k0 < len(ALPHABET) and 0 <= k1 < len(ALPHABET) and 0 <= k2 < len(ALPHABET)
    pre: (not FIX2 or k2 == 0) and (FIRST is None or k0 == int(FIRST))
    pre: not _in_known_region(k0, k1, k2)
    post: _
    """
    return _hostile(k0, k1, k2)


def hostile_known_region(k0: int, k1: int, k2: int) -> bool:
    """
    The same claim inside the region of the recorded finding (a generated statement whose expression raises at evaluation time): expected to be refuted,
    and every counterexample must lie in the recorded region.
    pre: 0 <= k0 < len(ALPHABET) and 0 <= k1 < len(ALPHABET) and 0 <= k2 < len(ALPHABET)
    pre: (FIRST is None or k0 == int(FIRST)) and _in_known_region(k0, k1, k2)
    post: _
    """
    return _hostile(k0, k1, k2)


def _hostile(k0, k1, k2):
    global LAST_INFO
    stubs.reset()
    rails.reset_app(APP)
    text = ALPHABET[conc(k0, 0, len(ALPHABET) - 1)] + ALPHABET[conc(k1, 0, len(ALPHABET) - 1)] + ALPHABET[conc(k2, 0, len(ALPHABET) - 1)]
    script = list(GOOD)
    script[POS] = text
    LLM.reset(script=script + ["  extra one", "  extra two", "  extra three"])
    why = None
    reply = None
    try:
        with rails.untraced():  # the completion is concrete on this path: nothing symbolic can reach the pipeline
            reply = rails.generate(APP, [{"role": "user", "content": USER}])
        if not _well_formed(reply):
            why = "malformed reply %r" % (reply,)
    except rails.Escaped as e:
        why = "generate raised %s" % e
    if not rails.is_tracing():
        LAST_INFO = {"mode": MODE, "call": POS, "completion": text, "reply": reply, "why": why}
    return why is None


def literal_templates(t: int, q: int) -> bool:
    """
    Template / variable syntax in the LLM-produced bot message is passed through literally (never rendered or substituted).
    pre: 0 <= t < len(TEMPLATES) and 0 <= q <= 2
    post: _
    """
    global LAST_INFO
    stubs.reset()
    rails.reset_app(APP)
    tpl = TEMPLATES[conc(t, 0, len(TEMPLATES) - 1)]
    inner = "before " + tpl + " after"
    form = conc(q, 0, 2)
    completion = ('  "%s"' % inner) if form == 0 else (inner if form == 1 else 'Bot message: "%s"' % inner)
    if MODE == "single":
        completion = "  ask joke\nbot tell joke\n" + (('  "%s"' % inner) if form != 1 else ("  " + inner))
    if MODE == "value":
        completion = '"%s"' % inner  # the generated value is later quoted by the predefined message "Your name is $name"
    if MODE in ("general", "passthrough"):
        completion = inner
    script = list(GOOD)
    script[-1] = completion
    LLM.reset(script=script + ["  extra"])
    why = None
    reply = None
    try:
        with rails.untraced():
            reply = rails.generate(APP, [{"role": "user", "content": USER}])
        if not _well_formed(reply) or tpl not in str(reply.get("content")):
            why = "template text %r not literally in the reply %r" % (tpl, reply)
    except rails.Escaped as e:
        why = "generate raised %s" % e
    if not rails.is_tracing():
        LAST_INFO = {"completion": completion, "reply": reply, "why": why}
    return why is None


def hostile_twin(k0: int, k1: int, k2: int) -> bool:
    """
    Twin: claims the reply never depends on the hostile completion (must be refuted).
    pre: 0 <= k0 < len(ALPHABET) and 0 <= k1 < len(ALPHABET) and k2 == 0
    post: _
    """
    stubs.reset()
    rails.reset_app(APP)
    text = ALPHABET[conc(k0, 0, len(ALPHABET) - 1)] + ALPHABET[conc(k1, 0, len(ALPHABET) - 1)]
    script = list(GOOD)
    script[-1] = text
    LLM.reset(script=script + ["  extra one", "  extra two"])
    with rails.untraced():
        reply = rails.generate(APP, [{"role": "user", "content": USER}])
    return reply.get("content") == "I'm not sure what to say."


_POS = {"plain": 3, "single": 1, "value": 2, "multistep": 3, "general": 1, "passthrough": 1}
SPEC = {
    "property": "C17",
    "functions": FUNCTIONS,
    "bounds": "(a) every string of up to 4 code points (any Unicode) through 13 post-processing helpers / output parsers; the 5 completion prefixes followed by any string of up to 3 code points. "
              "(c) Colang 1.0 pipeline: the completion of one LLM call of the turn (user intent / next step / bot message; the single call of single_call mode; the value of `$x = ...`; the next step(s) of multi-step generation, which become a dynamic flow) is any "
              "concatenation of 2 (thorough 3) tokens of an 27-token hostile alphabet (empty, whitespace, newlines, quotes, jinja and variable syntax, Colang keywords, comment, colon, backslash); "
              "5 template texts x 3 completion forms for literalness.",
    "outside": "multi-step completions containing a statement whose expression raises at evaluation time (recorded known finding, re-found on every run); Colang 2.x LLM flows (`import llm`: timers and polling actions of the library are not driven by this harness), multi-step dynamic flow generation beyond what the three "
               "Colang 1.0 modes reach, completions longer than 3 alphabet tokens / 4 code points, very long outputs. In (c) the text is concrete on each path: the solver enumerates token indices.",
    "assumptions": ["FakeLLM / StubVec / VLoop as in C01"],
    "explanation": "Oracle: (a) no exception, documented result types, result never longer than the input / a part of it; (c) generate returns {'role': 'assistant', 'content': str} or a rail exception and never raises; "
                   "template and variable syntax of an LLM-produced bot message appears verbatim in the reply.",
    "conditions": [
        {"fn": "helpers_total", "slices": [{"part": 0}, {"part": 1}], "tcond": 900, "tpath": 60, "bound": "len <= 4",
         "smoke": [{"slice": {}, "args": dict(s='"\n# ')}, {"slice": {}, "args": dict(s="")}, {"slice": {}, "args": dict(s='a"')}]},
        {"fn": "prefixed_total", "slices": [{}], "tcond": 900, "tpath": 60, "bound": "5 prefixes + len <= 3"},
        {"fn": "hostile_turn", "tiers": ("quick",), "slices": [{"mode": m, "pos": p, "fix2": 1} for m in ("plain", "single", "value", "multistep", "general", "passthrough") for p in range(_POS[m])], "tcond": 900, "tpath": 60, "bound": "2 tokens (third fixed to empty)",
         "smoke": [{"slice": {"mode": "plain", "pos": 1}, "args": dict(k0=6, k1=2, k2=7)}, {"slice": {"mode": "value", "pos": 1}, "args": dict(k0=3, k1=4, k2=0)}]},
        {"fn": "hostile_turn", "tiers": ("thorough",), "slices": [{"mode": m, "pos": p, "first": f} for (m, p) in (("plain", 1), ("multistep", 1), ("value", 1), ("general", 0)) for f in range(len(ALPHABET)) if not (m == "multistep" and p == 1 and f == EVAL_ERR)], "tcond": 3000, "tpath": 60,
         "bound": "3 tokens, partitioned on the first, at the next-step call (plain and multi-step), the value call and the general call"},
        {"fn": "hostile_turn", "tiers": ("thorough",), "slices": [{"mode": m, "pos": p, "fix2": 1} for m in ("plain", "single", "value", "multistep", "general", "passthrough") for p in range(_POS[m])], "tcond": 900, "tpath": 60,
         "bound": "2 tokens at every call position of every mode"},
        {"fn": "hostile_turn", "tiers": ("quick", "thorough"), "slices": [{"mode": "multistep", "pos": 1, "first": f} for f in (6, 7, 12, 16, 18, 19, 20, 21, 22, 23, 24, 26)], "tcond": 1800, "tpath": 60,
         "bound": "multi-step generation: 3 tokens with the first one a Colang statement token"},
        {"fn": "hostile_known_region", "expect": "known_or_confirmed", "slices": [{"mode": "multistep", "pos": 1, "first": 7}], "tcond": 600, "tpath": 60, "bound": "recorded finding re-found"},
        {"fn": "literal_templates", "slices": [{"mode": "plain"}, {"mode": "single"}, {"mode": "value"}, {"mode": "general"}], "tcond": 900, "tpath": 60, "bound": "5 templates x 3 forms"},
        {"fn": "hostile_twin", "expect": "counterexample", "slices": [{"mode": "plain"}], "tcond": 600, "tpath": 60, "bound": "twin"},
    ],
}
