"""Catalogue of Colang 2.x programs shared by the state-machine harnesses (C06, C09, C10, C11).

Every program comes with an *alphabet*: the external events a history step can be.  A step selector (bounded symbolic int)
is decoded to one letter by `event_for`; letters are
  ("ev", name, {param: value})     a plain external event
  ("started", i) / ("finished", i) the ...ActionStarted / ...ActionFinished feedback for the i-th action the program has
                                   started so far in this history (arriving early, late or never is the history's choice);
                                   if no i-th action exists yet the letter degrades to an irrelevant event.
"""

PROGRAMS = {}


def prog(name, src, letters, prefix=(0,), **meta):
    """prefix: indices of the letters that bring the program to its interesting state; harnesses run them natively before the symbolic history.
    meta (used by C06's behavioural oracle):
      activations: {(flow_id, ((param, value), ...)): [activator flow ids]}
      react: [(event name, {param: value}, reply name, [flows of which one must be running before the step])]
      once: [event names that may be emitted at most once over prefix + history]"""
    PROGRAMS[name] = dict({"src": src.lstrip("\n"), "letters": letters, "prefix": list(prefix)}, **meta)


E = lambda n, **kw: ("ev", n, kw)  # noqa: E731

# parent awaits a child that starts an action; parent can finish (Fin) or be stopped (Ab)
prog("await_child_action", """
flow child
  start UtteranceBotAction(script="c") as $a
  match $a.Finished()
  send ChildDone()
  match Never()

flow parent
  start GestureBotAction(gesture="g") as $g
  start child
  match Fin()
  send ParentDone()

flow main
  match Go()
  start parent
  match Ab()
  send StopFlow(flow_id="parent")
  match Never()
""", [E("Go"), E("Fin"), E("Ab"), ("started", 0), ("finished", 0), ("finished", 1)])

# two children, parent finishes or aborts; a child shares an identical action with a sibling
prog("two_children", """
flow c1
  await UtteranceBotAction(script="same")
  send C1()

flow c2
  await UtteranceBotAction(script="same")
  send C2()

flow parent
  start c1
  start c2
  match Fin()

flow main
  match Go()
  start parent as $p
  match Ab()
  send StopFlow(flow_instance_uid=$p.uid)
  match Never()
""", [E("Go"), E("Fin"), E("Ab"), ("started", 0), ("finished", 0), ("finished", 1)])

# when / or when with flows and actions started inside the scope
prog("when_scope", """
flow f1
  match A()

flow f2
  start UtteranceBotAction(script="in f2") as $u
  match B()

flow main
  match Go()
  when f1
    send W1()
  or when f2
    send W2()
  or when C()
    send W3()
  match Never()
""", [E("Go"), E("A"), E("B"), E("C"), ("started", 0), ("finished", 0)])

# await a or b on flows (or-group): the loser must be stopped
prog("await_or", """
flow a
  start UtteranceBotAction(script="a") as $x
  match A()

flow b
  start GestureBotAction(gesture="b") as $y
  match B()

flow main
  match Go()
  await a or b
  send Done()
  match Never()
""", [E("Go"), E("A"), E("B"), ("started", 0), ("finished", 0), ("finished", 1)])

# activate: flow that waits, restarts on every end; activator can finish
prog("activate_wait", """
flow act
  match Ping()
  send Pong()

flow holder
  activate act
  match Fin()

flow main
  match Go()
  start holder
  match Ab()
  send StopFlow(flow_id="holder")
  match Never()
""", [E("Go"), E("Ping"), E("Fin"), E("Ab"), E("Other")],
     activations={("act", ()): ["holder"]}, react=[("Ping", {}, "Pong", ["holder"])])

# activate: flow that finishes immediately (runs once, stays activated) and one that fails immediately
prog("activate_immediate", """
flow quick
  send Quick()

flow holder
  activate quick
  match Fin()

flow main
  match Go()
  start holder
  match Ping()
  send Alive()
  match Never()
""", [E("Go"), E("Fin"), E("Ping"), E("Other")],
     activations={("quick", ()): ["holder"]}, once=["Quick"])

# two activators with equal / different parameters
prog("activate_two_parents", """
flow act $p
  match Ping(v=$p)
  send Pong(v=$p)

flow h1
  activate act 1
  match Fin1()

flow h2
  activate act 1
  activate act 2
  match Fin2()

flow main
  match Go()
  start h1
  start h2
  match Never()
""", [E("Go"), E("Ping", v=1), E("Ping", v=2), E("Fin1"), E("Fin2")],
     activations={("act", (("p", 1),)): ["h1", "h2"], ("act", (("p", 2),)): ["h2"]},
     react=[("Ping", {"v": 1}, "Pong", ["h1", "h2"]), ("Ping", {"v": 2}, "Pong", ["h2"]), ("Ping", {"v": 3}, "Pong", [])])

# grand children + match group with and/or
prog("grandchildren", """
flow leaf
  start UtteranceBotAction(script="leaf") as $a
  match (L1() and L2()) or L3()
  send Leaf()

flow mid
  await leaf
  send Mid()
  match M()

flow top
  start mid
  match Fin()

flow main
  match Go()
  start top
  match Never()
""", [E("Go"), E("L1"), E("L2"), E("L3"), E("Fin"), ("finished", 0)])

# two flows start an identical action in the same step (shared action): stopped only when the last sharer ends
prog("shared_action", """
flow s1
  match Trig()
  start UtteranceBotAction(script="same") as $a
  match E1()

flow s2
  match Trig()
  start UtteranceBotAction(script="same") as $a
  match E2()

flow main
  match Go()
  start s1
  start s2
  match Never()
""", [E("Go"), E("Trig"), E("E1"), E("E2"), ("started", 0), ("finished", 0)])

# same as shared_action, but the history starts after the two flows have started their shared action
PROGRAMS["shared_action_started"] = dict(PROGRAMS["shared_action"], prefix=[0, 1])

# one flow activates the same flow with the same arguments twice, then ends
prog("activate_twice", """
flow act
  match Ping()
  send Pong()

flow holder
  activate act
  activate act
  match Fin()

flow main
  match Go()
  start holder
  match Never()
""", [E("Go"), E("Ping"), E("Fin"), E("Other")],
     activations={("act", ()): ["holder"]}, react=[("Ping", {}, "Pong", ["holder"])])

# an action used directly as a `when` case loses an action conflict against a more specific flow: the else branch must run
prog("when_action_conflict", """
flow winner
  match Trig(kind="x")
  start UtteranceBotAction(script="winner") as $w
  match Never()

flow loser
  match Trig()
  when UtteranceBotAction(script="loser")
    send LoserWhenDone()
  else
    send LoserElseDone()
  match Never()

flow main
  match Go()
  start winner
  start loser
  match Never()
""", [E("Go"), E("Trig", kind="x"), E("Trig", kind="y"), ("started", 0), ("finished", 0), E("Other")])

# main is finished explicitly while parked on a match group and restarts
prog("finish_main", """
flow restarter
  match Reset()
  send FinishFlow(flow_id="main")

flow main
  activate restarter
  match A() or B()
  send Round()
  match C()
  send RoundEnd()
""", [E("Reset"), E("A"), E("B"), E("C"), E("Other")], prefix=())

# parent and child wait for the same event: the parent is advanced first, finishes and thereby ends the child in the same event
prog("same_event_parent_child", """
flow child
  match Bye()
  send ChildBye()
  match More() or Other()
  send ChildMore()

flow parent
  start child
  match Bye()
  send ParentBye()

flow main
  match Go()
  start parent
  match Never()
""", [E("Go"), E("Bye"), E("More"), E("Other")])

# explicit deactivation of an activated flow that already completed a cycle
prog("deactivate", """
flow act
  match Ping()
  send Pong()

flow main
  match Go()
  activate act
  match Off()
  deactivate act
  match Never()
""", [E("Go"), E("Ping"), E("Off"), E("Other")],
     react=[])

# payloads + competing flows in one loop (conflict resolution inside)
prog("conflict", """
flow x
  match Ev(a=1)
  send X()
  match Never()

flow y
  match Ev()
  send Y()
  match Never()

flow main
  match Go()
  start x
  start y
  match Never()
""", [E("Go"), E("Ev", a=1), E("Ev", a=2), E("Ev", a=1, b=2), E("Other")])

# while loop with a counter and if/else on payload
prog("loop_counter", """
flow main
  $n = 0
  while $n < 2
    match Tick() as $t
    if $t.k == 1
      send One(n=$n)
    else
      send Zero(n=$n)
    $n = $n + 1
  send LoopDone()
  match Never()
""", [E("Tick", k=0), E("Tick", k=1), E("Other")], prefix=())

# programs whose variables hold the kinds of values a Colang program can create, used again after the cut
prog("vars_kinds", """
flow waiter $p
  match Ev(t=$p)
  send Matched()

flow main
  match Go() as $e
  $l = [1, [2, 3]]
  $d = {"k": 1, "n": {"m": None}}
  $f = 0.5
  $b = True
  $t = "text"
  start UtteranceBotAction(script="a") as $act
  start waiter "abc" as $w
  match Next() as $n
  send Out(l=$l, d=$d, f=$f, b=$b, t=$t, from_go=$e.x, from_next=$n.x)
  match $act.Finished()
  send ActDone()
  match $w.Finished()
  send WaiterDone()
  match Never()
""", [E("Go", x=1), E("Next", x=1), ("finished", 0), E("Ev", t="abc"), E("Ev", t="zzz"), E("Other")])

prog("vars_regex", """
flow waiter $p
  match Ev(t=$p)
  send Matched()

flow main
  match Go()
  start waiter (regex("^a")) as $w
  match Next()
  send Out()
  match $w.Finished()
  send WaiterDone()
  match Never()
""", [E("Go"), E("Next"), E("Ev", t="abc"), E("Ev", t="zzz"), E("Other")])

prog("vars_cmp", """
flow waiter $p
  match Ev(val=$p)
  send Matched()

flow main
  match Go()
  start waiter (less_than(3)) as $w
  match Next()
  send Out()
  match $w.Finished()
  send WaiterDone()
  match Never()
""", [E("Go"), E("Next"), E("Ev", val=1), E("Ev", val=4), E("Other")])

prog("vars_intkeys", """
flow main
  match Go()
  $di = {1: "one", 2: "two"}
  match Next() as $n
  send Out(v=$di[$n.k])
  match Never()
""", [E("Go"), E("Next", k=1), E("Other")])


LIBRARY_MAIN = """
import core

flow main
  activate notification of undefined flow start
  match Go()
  bot say "hello"
  user said "hi"
  bot say "bye"
  match Never()
"""


def names():
    return sorted(PROGRAMS)


class History:
    """Tracks the actions a program started (from outgoing events) so that feedback letters can refer to them."""

    def __init__(self):
        self.actions = []  # (action name, action_uid)

    def observe(self, outgoing):
        for e in outgoing:
            t = e.get("type", "")
            if t.startswith("Start") and t.endswith("Action") and "action_uid" in e:
                self.actions.append((t[len("Start"):], e["action_uid"]))

    def event(self, letter):
        kind = letter[0]
        if kind == "ev":
            d = {"type": letter[1]}
            d.update(letter[2])
            return d
        i = letter[1]
        if i >= len(self.actions):
            return {"type": "Irrelevant"}
        name, uid = self.actions[i]
        if kind == "started":
            return {"type": name + "Started", "action_uid": uid}
        return {"type": name + "Finished", "action_uid": uid, "is_success": True}
