"""C18 - streaming output does not depend on chunking.

Real code under symbolic execution: nemoguardrails.streaming.StreamingHandler
push_chunk / _process / on_llm_end / __anext__ (queue draining semantics).
"""
from harness.common import run_coro, sl
from vlib import stubs

from nemoguardrails.streaming import StreamingHandler

stubs.install(clock=False, choice=False)

FUNCTIONS = [
    "nemoguardrails.streaming.StreamingHandler.push_chunk",
    "nemoguardrails.streaming.StreamingHandler._process",
    "nemoguardrails.streaming.StreamingHandler.on_llm_end",
    "nemoguardrails.streaming.StreamingHandler.set_pattern",
]

# configuration catalogue: (prefix, suffix, stop list)
CONFIGS = {
    "none": (None, None, []),
    "prefix": ("B:", None, []),
    "suffix": (None, '"', []),
    "suffix2": (None, "ab", []),
    "botmsg": ('B"', '"', []),  # shape used by generate_bot_message: prefix ends with the suffix char
    "indent": ('  "', '"', []),  # literally the pattern generation.py:914 sets
    "stop": (None, None, ["ab"]),
    "stop2": (None, None, ["\nU", "ab"]),
    "suffix_stop": (None, '"', ['"\n']),  # generation.py:814 stop with the bot-message suffix
    "all": ('B"', '"', ["\nU"]),
}
CFG = sl("cfg", "none")
N = int(sl("n", 4))
L = sl("len")  # exact text length (partition parameter) or None
I = sl("i")  # first split point (partition parameter) or None
LAST_INFO = None


def deliver(h):
    """What a consumer iterating the handler receives (see __anext__: stops at the first empty element)."""
    out = []
    for el in list(h.queue._queue):
        if el is None or el == "":
            break
        out.append(el)
    return "".join(out)


def run(chunks, cfg, end="llm_end"):
    prefix, suffix, stop = cfg
    h = StreamingHandler()
    h.set_pattern(prefix=prefix, suffix=suffix)
    h.stop = list(stop)
    for c in chunks:
        run_coro(h.push_chunk(c))
    if end == "llm_end":
        run_coro(h.on_llm_end(None, run_id=None))
    else:
        run_coro(h.push_chunk(""))
    return deliver(h), h.completion


def spec(text, cfg):
    """Reference from the property statement: prefix removed, cut at first stop, suffix removed.

    Returns None when the statement does not determine the result (the two
    orders of 'cut' and 'remove suffix' disagree)."""
    prefix, suffix, stop = cfg
    t = text
    if prefix and t.startswith(prefix):
        t = t[len(prefix):]

    def cut(s):
        best = len(s)
        for st in stop:
            k = s.find(st)
            if k >= 0 and k < best:
                best = k
        return s[:best]

    def unsuffix(s):
        if suffix and s.endswith(suffix):
            return s[: len(s) - len(suffix)]
        return s

    a = unsuffix(cut(t))
    b = cut(unsuffix(t))
    if a != b:
        return None
    return a


def fits(text, i, j):
    if L is not None and len(text) != L:
        return False
    if I is not None and i != I:
        return False
    return len(text) <= N and 0 < i <= j <= len(text)


def pieces(text, i, j):
    """Tokens are non-empty: an empty chunk is the end-of-stream marker by design."""
    out = [text[:i]]
    if i < j:
        out.append(text[i:j])
    if j < len(text):
        out.append(text[j:])
    return out


def _check(text, i, j, cfg, end):
    global LAST_INFO
    stubs.reset()
    one = run([text], cfg, end)
    chunks = pieces(text, i, j)
    three = run(chunks, cfg, end)
    sp = spec(text, cfg)
    LAST_INFO = {"one": one, "three": three, "spec": sp, "cfg": cfg, "chunks": chunks}
    if one[0] != three[0]:
        return False
    if one[0] != one[1] or three[0] != three[1]:
        return False  # completion must equal what was delivered
    if sp is not None and one[0] != sp:
        return False
    return True


def chunking(text: str, i: int, j: int) -> bool:
    """
    pre: fits(text, i, j)
    post: _
    """
    return _check(text, i, j, CONFIGS[CFG], "llm_end")


def chunking_pushend(text: str, i: int, j: int) -> bool:
    """
    The stream is terminated with push_chunk("") (as the tests and LLMRails do) instead of on_llm_end.
    pre: fits(text, i, j)
    post: _
    """
    return _check(text, i, j, CONFIGS[CFG], "push_empty")


def twin_reach(text: str, i: int, j: int) -> bool:
    """
    Reachability twin: claims the interesting case (pattern actually stripped something and output non-empty) never happens.
    pre: fits(text, i, j)
    post: _
    """
    stubs.reset()
    cfg = CONFIGS[CFG]
    three = run(pieces(text, i, j), cfg)
    if cfg == CONFIGS["none"]:
        return not (three[0] == text and len(text) >= 3)
    return not (three[0] != text and three[0] != "")


# ---------------------------------------------------------------------------
def _slices(cfg, n, part):
    if part == "none":
        return [{"cfg": cfg, "n": n}]
    out = []
    for ln in range(1, n + 1):
        if part == "len":
            out.append({"cfg": cfg, "n": n, "len": ln})
        else:
            for i in range(1, ln + 1):
                out.append({"cfg": cfg, "n": n, "len": ln, "i": i})
    return out


_PART = {"none": "none", "prefix": "none", "suffix": "len", "suffix2": "len_i", "botmsg": "len", "indent": "len",
         "stop": "len_i", "stop2": "len_i", "suffix_stop": "len_i", "all": "len_i"}
_QUICK_N = {"suffix2": 3, "stop2": 3}


def _conditions():
    conds = []
    for cfg in CONFIGS:
        nq = _QUICK_N.get(cfg, 4)
        conds.append({"fn": "chunking", "tiers": ("quick",), "slices": _slices(cfg, nq, _PART[cfg]), "tcond": 240, "tpath": 10,
                      "bound": "cfg=%s: every text with len<=%d (any code points), every split into 1..3 non-empty chunks" % (cfg, nq),
                      "smoke": [{"slice": {"cfg": cfg, "n": 8}, "args": {"text": 'B"hi"\nUx', "i": 2, "j": 5}},
                                {"slice": {"cfg": cfg, "n": 8}, "args": {"text": '  "ab"', "i": 1, "j": 4}}]})
        conds.append({"fn": "chunking", "tiers": ("thorough",), "slices": _slices(cfg, 5, "len_i" if _PART[cfg] != "none" else "len"),
                      "tcond": 900, "tpath": 10,
                      "bound": "cfg=%s: every text with len<=5, every split into 1..3 non-empty chunks" % cfg})
        if CONFIGS[cfg][0] is None:
            conds.append({"fn": "chunking_pushend", "tiers": ("thorough",), "slices": _slices(cfg, 4, _PART[cfg]), "tcond": 600, "tpath": 10,
                          "bound": "cfg=%s, stream ended by push_chunk(''): len<=4" % cfg})
        conds.append({"fn": "twin_reach", "expect": "counterexample", "slices": [{"cfg": cfg, "n": 4}], "tcond": 120, "tpath": 10,
                      "bound": "reachability twin"})
    return conds


SPEC = {
    "property": "C18",
    "functions": FUNCTIONS,
    "bounds": "text: symbolic str of bounded length over all Unicode code points; chunking: two symbolic split points (1-3 non-empty chunks); "
              "pattern configurations: the catalogue CONFIGS (10 prefix/suffix/stop combinations incl. the two literal patterns generation.py sets); "
              "stream ended by on_llm_end (quick, thorough) or push_chunk('') (thorough, prefix-less configs)",
    "outside": "texts longer than the bound; more than 3 chunks; empty tokens (an empty chunk is the end-of-stream marker by design); "
               "enable_buffer / wait_top_k_nonempty_lines / pipe_to paths; patterns outside the catalogue; "
               "spec equality is only asserted where the statement determines the result (cut-then-unsuffix == unsuffix-then-cut)",
    "assumptions": ["coroutines of StreamingHandler never suspend with an unbounded queue (asserted: a suspension raises)",
                    "delivered output = queue elements up to the first empty/None element (the iterator's own termination rule)"],
    "explanation": "Oracle: delivered(1 chunk) == delivered(k chunks) == handler.completion == spec(text) with spec written from the property statement.",
    "conditions": _conditions(),
}
