"""Colang 2.x helpers for harnesses: parse once (untraced), fresh State per path."""
import contextlib
import copy

import harness.common  # noqa: F401  (sys.path)
from vlib import stubs

from nemoguardrails.colang import parse_colang_file
from nemoguardrails.colang.v2_x.runtime.flows import (  # noqa: F401
    Action,
    ActionEvent,
    ActionStatus,
    Event,
    FlowHeadStatus,
    FlowStatus,
    InternalEvent,
    InternalEvents,
    State,
)
from nemoguardrails.colang.v2_x.runtime.runtime import create_flow_configs_from_flow_list
from nemoguardrails.colang.v2_x.runtime import statemachine as sm
from nemoguardrails.colang.v2_x.runtime.statemachine import initialize_state, run_to_completion  # noqa: F401

stubs.install()

try:
    from crosshair.tracers import NoTracing, is_tracing
except ImportError:  # pragma: no cover
    NoTracing = None

    def is_tracing():
        return False


def untraced():
    if NoTracing is not None and is_tracing():
        return NoTracing()
    return contextlib.nullcontext()


_PARSED = {}


def parse(content, name=""):
    """Parse Colang 2.x text to the list of Flow ASTs (cached, untraced)."""
    key = (name, content)
    if key not in _PARSED:
        with untraced():
            _PARSED[key] = parse_colang_file(filename=name, content=content, include_source_mapping=False, version="2.x")["flows"]
    return _PARSED[key]


def new_state(content, traced_init=False):
    """A freshly initialised State for the program text."""
    flows = parse(content)
    if traced_init:
        with untraced():
            cfgs = create_flow_configs_from_flow_list(copy.deepcopy(flows))
        state = State(flow_states={}, flow_configs=cfgs)
        initialize_state(state)
        return state
    with untraced():
        cfgs = create_flow_configs_from_flow_list(copy.deepcopy(flows))
        state = State(flow_states={}, flow_configs=cfgs)
        initialize_state(state)
    return state


def start(state):
    """Kick off the main flow like the runtime does (StartFlow main is implicit: an empty first event)."""
    run_to_completion(state, InternalEvent(name="StartFlow", arguments={"flow_id": "main"}))


def out_events(state):
    """Outgoing events as plain (name, arguments, action_uid) tuples."""
    res = []
    for e in state.outgoing_events:
        if isinstance(e, dict):
            res.append((e.get("type"), {k: v for k, v in e.items() if k != "type"}))
        else:
            res.append((e.name, dict(e.arguments)))
    return res


def out_names(state):
    return [n for n, _ in out_events(state)]
