"""C04 - Colang 2 event matching follows the documented partial-match rules.

Real code: statemachine._compute_arguments_dict_matching_score,
_compute_event_comparison_score, _compute_event_matching_score and (end to end)
run_to_completion on `match Ev(p=<pattern>)` programs.
"""
import re

from harness import v2
from harness.common import sl
from vlib import stubs

sm = v2.sm
FUNCTIONS = [
    "nemoguardrails.colang.v2_x.runtime.statemachine._compute_arguments_dict_matching_score",
    "nemoguardrails.colang.v2_x.runtime.statemachine._compute_event_comparison_score",
    "nemoguardrails.colang.v2_x.runtime.statemachine._compute_event_matching_score",
    "nemoguardrails.colang.v2_x.runtime.statemachine.run_to_completion",
    "nemoguardrails.colang.v2_x.runtime.statemachine.get_event_from_element",
]

REGEX = [re.compile("a"), re.compile("^b"), re.compile("ab?$"), re.compile(".")]
REGEX_SRC = ['regex("a")', 'regex("^b")', 'regex("ab?$")', 'regex(".")']
QPOOL = ["a", "b", "ab"]


def I(k):
    return ("i", k)


def S(k):
    return ("s", k)


def R(k):
    return ("r", k)


def Q(k):
    return ("q", k)


class SetOf:
    def __init__(self, *items):
        self.items = items


# ---- shape catalogue (depth <= 2, width <= 3) -----------------------------
SHAPES = [
    I(0),                                   # 0 int
    S(0),                                   # 1 str (symbolic text)
    None,                                   # 2
    [],                                     # 3
    [I(0)],                                 # 4
    [I(0), I(1)],                           # 5
    [I(0), I(1), I(2)],                     # 6
    SetOf(),                                # 7
    SetOf(I(0)),                            # 8
    SetOf(I(0), I(1)),                      # 9
    SetOf(I(0), I(1), I(2)),                # 10
    {},                                     # 11
    {"k0": I(0)},                           # 12
    {"k0": I(0), "k1": I(1)},               # 13
    {"k1": I(0)},                           # 14
    {"k0": I(0), "k1": I(1), "k2": I(2)},   # 15
    [[I(0)], I(1)],                         # 16
    [[I(0), I(1)], [I(2)]],                 # 17
    {"k0": [I(0), I(1)]},                   # 18
    [{"k0": I(0)}],                         # 19
    {"k0": {"k1": I(0)}},                   # 20
    {"k0": SetOf(I(0), I(1))},              # 21
    [S(0), S(1)],                           # 22
    SetOf(Q(0), Q(1)),                      # 23 set of pool strings
    SetOf(Q(0)),                            # 24
    {"k0": S(0)},                           # 25
    [I(0), [I(1)]],                         # 26
    True,                                   # 27 (bool; only compared with bools/None/containers)
]
# pattern-only shapes (contain regex objects)
PSHAPES = SHAPES + [
    R(0),                                   # 28 regex 'a'
    R(2),                                   # 29 regex 'ab?$'
    [R(0), R(1)],                           # 30
    SetOf(R(0), R(3)),                      # 31 the set {regex a, regex .}
    {"k0": R(1)},                           # 32
    SetOf(R(0)),                            # 33
    [R(3)],                                 # 34
]
NV = len(SHAPES)
NP = len(PSHAPES)


def build(shape, ints, strs):
    """Instantiate a shape; container structure is concrete, leaves are the (symbolic) variables."""
    if isinstance(shape, tuple):
        kind, k = shape
        if kind == "i":
            return ints[k]
        if kind == "s":
            return strs[k]
        if kind == "r":
            return REGEX[k]
        if kind == "q":
            x = ints[k]
            if x == 0:
                return QPOOL[0]
            if x == 1:
                return QPOOL[1]
            return QPOOL[2]
    if isinstance(shape, list):
        return [build(x, ints, strs) for x in shape]
    if isinstance(shape, SetOf):
        out = set()
        for x in shape.items:
            out.add(build(x, ints, strs))
        return out
    if isinstance(shape, dict):
        return {k: build(x, ints, strs) for k, x in shape.items()}
    return shape


def source(shape, ints, strs):
    """Colang source text of a pattern shape with concrete leaves."""
    if isinstance(shape, tuple):
        kind, k = shape
        if kind == "i":
            return str(ints[k])
        if kind == "s":
            return '"%s"' % strs[k]
        if kind == "r":
            return REGEX_SRC[k]
        if kind == "q":
            return '"%s"' % QPOOL[min(ints[k], 2)]
    if isinstance(shape, list):
        return "[" + ", ".join(source(x, ints, strs) for x in shape) + "]"
    if isinstance(shape, SetOf):
        return "{" + ", ".join(source(x, ints, strs) for x in shape.items) + "}"
    if isinstance(shape, dict):
        return "{" + ", ".join('"%s": %s' % (k, source(x, ints, strs)) for k, x in shape.items()) + "}"
    return repr(shape)


# ---- reference matcher, written from the property statement ----------------
def is_scalar(x):
    return x is None or isinstance(x, (bool, int, str))


def ref_match(pat, val):
    if isinstance(pat, re.Pattern):
        if isinstance(val, (str, int)):
            return pat.search(str(val)) is not None
        return False
    if isinstance(pat, list):
        if not isinstance(val, list) or len(val) < len(pat):
            return False
        return _subseq(pat, val)
    if isinstance(pat, set):
        if not isinstance(val, set) or len(val) < len(pat):
            return False
        for p in pat:
            found = False
            for v in val:
                if ref_match(p, v):
                    found = True
                    break
            if not found:
                return False
        return True
    if isinstance(pat, dict):
        if not isinstance(val, dict) or len(val) < len(pat):
            return False
        for k in pat:
            if k not in val:
                return False
            if not ref_match(pat[k], val[k]):
                return False
        return True
    # scalars: equal values of the same kind
    if isinstance(val, (list, set, dict)):
        return False
    if pat is None or val is None:
        return pat is None and val is None
    if isinstance(pat, bool) != isinstance(val, bool):
        raise Undetermined()
    if isinstance(pat, str) != isinstance(val, str):
        return False
    return pat == val


class Undetermined(Exception):
    """bool vs int comparisons: Python equality (True == 1) makes the statement ambiguous; not claimed."""


def _subseq(pat, val):
    if len(pat) == 0:
        return True
    if len(val) == 0:
        return False
    if ref_match(pat[0], val[0]) and _subseq(pat[1:], val[1:]):
        return True
    return _subseq(pat, val[1:])


# ---- conditions -----------------------------------------------------------
PS = sl("ps")  # pattern shape index (partition parameter)
VLO = sl("vlo", 0)
VHI = sl("vhi", NV - 1)
LAST_INFO = None


def _ok_ints(*xs):
    for x in xs:
        if not (0 <= x <= 2):
            return False
    return True


def _pick_value(vs, vints, vstrs):
    k = VLO
    while k < VHI:
        if vs == k:
            break
        k += 1
    return build(SHAPES[k], vints, vstrs)


def unit_equiv(vs: int, p0: int, p1: int, p2: int, w0: int, w1: int, w2: int, ps0: str, vs0: str, vs1: str) -> bool:
    """
    score > 0  <=>  ref_match(pattern, value), and score <= 1.
    pre: VLO <= vs <= VHI
    pre: _ok_ints(p0, p1, p2, w0, w1, w2)
    pre: len(ps0) <= 1 and len(vs0) <= 2 and len(vs1) <= 1
    post: _
    """
    global LAST_INFO
    pat = build(PSHAPES[PS], [p0, p1, p2], [ps0, ps0])
    val = _pick_value(vs, [w0, w1, w2], [vs0, vs1])
    score = sm._compute_arguments_dict_matching_score(val, pat)
    try:
        exp = ref_match(pat, val)
    except Undetermined:
        return True
    if not v2.is_tracing():
        LAST_INFO = {"pattern": repr(pat), "value": repr(val), "score": score, "ref_match": exp}
    return (score > 0.0) == exp and score <= 1.0


def unit_twin(vs: int, p0: int, p1: int, p2: int, w0: int, w1: int, w2: int, ps0: str, vs0: str, vs1: str) -> bool:
    """
    Reachability twin: claims a match never happens for this pattern shape.
    pre: VLO <= vs <= VHI
    pre: _ok_ints(p0, p1, p2, w0, w1, w2)
    pre: len(ps0) <= 1 and len(vs0) <= 2 and len(vs1) <= 1
    post: _
    """
    pat = build(PSHAPES[PS], [p0, p1, p2], [ps0, ps0])
    val = _pick_value(vs, [w0, w1, w2], [vs0, vs1])
    return not (sm._compute_arguments_dict_matching_score(val, pat) > 0.0)


# ---- event level: names, unmentioned parameters, action instance -----------
class _St:
    def __init__(self):
        self.actions = {}


UIDS = [None, "u1", "u2"]


def _conc(k):
    """Branch so that a small symbolic int is concrete on each path."""
    if k == 0:
        return 0
    if k == 1:
        return 1
    return 2


def _uid(k):
    if k == 0:
        return None
    if k == 1:
        return "u1"
    return "u2"


def event_level(same_name: bool, pu: int, eu: int, extra: int, a: int, b: int, pa: int, known: bool, prio: int) -> bool:
    """
    UMIM/action events: the name must be equal, mentioned params must match, unmentioned ones only lower the score
    (0.9 each), an instance-bound pattern (action_uid set) matches only that instance.
    pre: 0 <= pu <= 2 and 0 <= eu <= 2 and 0 <= extra <= 2
    pre: _ok_ints(a, b, pa) and 0 <= prio <= 2
    post: _
    """
    global LAST_INFO
    st = _St()
    extra = _conc(extra)
    args = {"a": a}
    if extra >= 1:
        args["x1"] = b
    if extra >= 2:
        args["x2"] = 7
    ev = v2.ActionEvent(name="XActionFinished" if same_name else "YActionFinished", arguments=args, action_uid=_uid(eu))
    ref = v2.ActionEvent(name="XActionFinished", arguments={"a": pa}, action_uid=_uid(pu))
    if known and eu != 0:
        act = v2.Action("XAction", {})
        act.uid = _uid(eu)
        st.actions[act.uid] = act
    priority = [None, 0.5, 1.0][_conc(prio)]
    score = sm._compute_event_comparison_score(st, ev, ref, priority)
    exp = same_name and a == pa and (pu == 0 or pu == eu)
    if not v2.is_tracing():
        LAST_INFO = {"event": repr(ev), "ref": repr(ref), "score": score, "expected_match": exp}
    if (score > 0.0) != exp:
        return False
    if exp:
        # a known action contributes its start arguments as one more (unmentioned) event parameter
        unmentioned = extra + (1 if (known and eu != 0) else 0)
        want = (0.9 ** unmentioned) * (priority if priority else 1.0)
        return abs(score - want) < 1e-9
    return True


def event_twin(same_name: bool, pu: int, eu: int, extra: int, a: int, b: int, pa: int, known: bool, prio: int) -> bool:
    """
    pre: 0 <= pu <= 2 and 0 <= eu <= 2 and 0 <= extra <= 2
    pre: _ok_ints(a, b, pa) and 0 <= prio <= 2
    post: _
    """
    st = _St()
    ev = v2.ActionEvent(name="XActionFinished" if same_name else "YActionFinished", arguments={"a": a}, action_uid=_uid(eu))
    ref = v2.ActionEvent(name="XActionFinished", arguments={"a": pa}, action_uid=_uid(pu))
    return not (sm._compute_event_comparison_score(st, ev, ref, None) > 0.0 and pu != 0)


# ---- end to end through run_to_completion ---------------------------------
E2E_PINTS = [1, 2, 0]
E2E_PSTR = ["a", "a"]


def _e2e_program():
    return "flow main\n  match Ev(p=%s)\n  send Done()\n" % source(PSHAPES[PS], E2E_PINTS, E2E_PSTR)


def e2e_equiv(vs: int, w0: int, w1: int, w2: int, vs0: str, vs1: str, extra: int, other_name: bool) -> bool:
    """
    `match Ev(p=<pattern>)` advances on an event exactly when name matches and ref_match(pattern, payload).
    pre: VLO <= vs <= VHI
    pre: _ok_ints(w0, w1, w2) and 0 <= extra <= 2
    pre: len(vs0) <= 2 and len(vs1) <= 1
    post: _
    """
    global LAST_INFO
    stubs.reset()
    st = v2.new_state(_e2e_program())
    v2.start(st)
    pat = build(PSHAPES[PS], E2E_PINTS, E2E_PSTR)
    val = _pick_value(vs, [w0, w1, w2], [vs0, vs1])
    ev = {"type": "Other" if other_name else "Ev", "p": val}
    if extra >= 1:
        ev["x1"] = 1
    if extra >= 2:
        ev["x2"] = [1]
    v2.run_to_completion(st, ev)
    advanced = "Done" in v2.out_names(st)
    try:
        exp = (not other_name) and ref_match(pat, val)
    except Undetermined:
        return True
    if not v2.is_tracing():
        LAST_INFO = {"program": _e2e_program(), "event": repr(ev), "advanced": advanced, "expected": exp}
    return advanced == exp


INSTANCE_PROGRAM = """
flow a $x
  match Ev(x=$x)

flow main
  start a 1 as $r1
  start a 2 as $r2
  start XAction() as $a1
  start XAction() as $a2
  match $r2.Finished() or $a2.Finished()
  send Done()
"""


def e2e_instance(which: int, x: int, uidk: int) -> bool:
    """
    A statement bound to a flow/action instance reacts only to events of that instance.
    pre: 0 <= which <= 1 and 0 <= x <= 3 and 0 <= uidk <= 3
    post: _
    """
    global LAST_INFO
    stubs.reset()
    st = v2.new_state(INSTANCE_PROGRAM)
    v2.start(st)
    starts = [a for n, a in v2.out_events(st) if n == "StartXAction"]
    uids = [a["action_uid"] for a in starts]
    if len(uids) != 2:
        return False
    if which == 0:
        v2.run_to_completion(st, {"type": "Ev", "x": x})
        exp = x == 2
    else:
        uid = [uids[0], uids[1], "other", None][uidk if uidk < 3 else 3]
        ev = {"type": "XActionFinished", "is_success": True}
        if uid is not None:
            ev["action_uid"] = uid
        v2.run_to_completion(st, ev)
        exp = uidk == 1
    advanced = "Done" in v2.out_names(st)
    if not v2.is_tracing():
        LAST_INFO = {"which": which, "x": x, "uidk": uidk, "advanced": advanced, "expected": exp}
    return advanced == exp


# ---------------------------------------------------------------------------
_INT_SMOKE = {"vs": 6, "p0": 1, "p1": 2, "p2": 0, "w0": 1, "w1": 0, "w2": 2, "ps0": "a", "vs0": "ab", "vs1": "b"}


def _conditions():
    conds = []
    allp = [{"ps": k} for k in range(NP)]
    conds.append({"fn": "unit_equiv", "slices": allp, "tcond": 300, "tpath": 10,
                  "bound": "pattern shape = slice (35 shapes, depth<=2, width<=3, incl. regex objects); value shape symbolic over 28 shapes; "
                           "int leaves 0..2, str leaves len<=2 (any code point), set-of-str leaves from a 3-string pool",
                  "smoke": [{"slice": {"ps": 5}, "args": _INT_SMOKE}, {"slice": {"ps": 30}, "args": dict(_INT_SMOKE, vs=22)}]})
    conds.append({"fn": "unit_twin", "expect": "counterexample", "slices": [{"ps": k} for k in (0, 5, 9, 13, 17, 21, 28, 31, 32)],
                  "tcond": 120, "tpath": 10, "bound": "reachability twin"})
    conds.append({"fn": "event_level", "slices": [{}], "tcond": 300, "tpath": 10,
                  "bound": "event name same/different, pattern/event action_uid in {None,u1,u2}, 0-2 unmentioned params, priority in {None,0.5,1.0}",
                  "smoke": [{"slice": {}, "args": {"same_name": True, "pu": 1, "eu": 1, "extra": 2, "a": 1, "b": 0, "pa": 1, "known": True, "prio": 1}}]})
    conds.append({"fn": "event_twin", "expect": "counterexample", "slices": [{}], "tcond": 120, "tpath": 10, "bound": "reachability twin"})
    conds.append({"fn": "e2e_equiv", "tiers": ("quick",), "slices": [{"ps": k} for k in (0, 2, 5, 9, 13, 17, 18, 21, 23, 28, 30, 31, 32)], "tcond": 400, "tpath": 20,
                  "bound": "run_to_completion on `match Ev(p=<pattern>)` for 13 pattern shapes with fixed leaves; payload shape/leaves symbolic; 0-2 extra params; other event name",
                  "smoke": [{"slice": {"ps": 5}, "args": {"vs": 6, "w0": 1, "w1": 0, "w2": 2, "vs0": "a", "vs1": "", "extra": 1, "other_name": False}}]})
    # the empty set (shape 7) has no Colang literal (`{}` is the empty dict), so it cannot be written into a program: unit level only
    conds.append({"fn": "e2e_equiv", "tiers": ("thorough",), "slices": [x for x in allp if x.get("ps") != 7], "tcond": 900, "tpath": 20,
                  "bound": "run_to_completion on `match Ev(p=<pattern>)` for the 34 pattern shapes that have a Colang literal (all but the empty set)"})
    conds.append({"fn": "e2e_instance", "slices": [{}], "tcond": 300, "tpath": 20,
                  "bound": "two instances of one flow and of one action; statement bound to the second instance; events of either instance / a foreign uid / no uid",
                  "smoke": [{"slice": {}, "args": {"which": 1, "x": 0, "uidk": 1}}]})
    return conds


SPEC = {
    "property": "C04",
    "functions": FUNCTIONS,
    "bounds": "patterns and payloads: containers of depth<=2, width<=3 from a 35/28-shape catalogue (lists, sets, dicts, nested, regex objects, scalars); "
              "leaves: ints 0..2, strings len<=2 over all code points, booleans, None",
    "outside": "depth>2, width>3, floats, ComparisonExpression operands, bool-vs-int leaves (Python's True==1 makes the statement ambiguous; skipped), "
               "internal-event flow_id special cases other than instance binding",
    "assumptions": ["ref_match(): 45-line reference matcher written from the property statement",
                    "pattern objects are built by the harness for the unit conditions and by the real parser/evaluator for the e2e conditions"],
    "explanation": "Oracle: (score>0) == ref_match(pattern,value); exact score 0.9^unmentioned*priority at event level; Done emitted iff ref_match at run_to_completion level.",
    "conditions": _conditions(),
}
