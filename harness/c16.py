"""C16 - generation options run exactly the selected rail categories.

Real code: GenerationOptions validation (list and dict forms), LLMRails.generate_async (options -> context message, supplied bot message -> $bot_message),
llm_flows.co ($generation_options tests in process user input / run dialog rails / generate bot message / process bot message), compute_generation_log.
"""
from harness import rails
from harness.common import conc, sl
from vlib import stubs

FUNCTIONS = [
    "nemoguardrails.rails.llm.options.GenerationOptions (root validator: list form -> dict form)",
    "nemoguardrails.rails.llm.llmrails.LLMRails.generate_async (options handling, $bot_message from a trailing assistant message)",
    "nemoguardrails/rails/llm/llm_flows.co: process user input, run dialog rails, generate bot message, process bot message",
    "nemoguardrails.logging.processing_log.compute_generation_log",
    "nemoguardrails.colang.v1_0.runtime (generate_events, compute_next_steps, slide)",
]
LAST_INFO = None
MASK = int(sl("mask", 1))  # bit0 input, bit1 dialog, bit2 retrieval, bit3 output
FORM = sl("form", "list")
N = int(sl("n", 1))
FIX = sl("fix", {})


def _fixed(**kw):
    for k, v in kw.items():
        if k in FIX and v != FIX[k]:
            return False
    return True


I_ON, D_ON, R_ON, O_ON = bool(MASK & 1), bool(MASK & 2), bool(MASK & 4), bool(MASK & 8)


def _rail(kind, i, var):
    return '''
define bot refuse %s %d
  "REFUSED_%s%d"

define subflow %s rail %d
  $v = execute %s%d(text=$%s)
  if $v == "reject"
    bot refuse %s %d
    stop
  if $v != "accept"
    $%s = $v
''' % (kind, i, kind.upper(), i, kind, i, kind, i, var, kind, i, var)


COLANG = '''
define user ask question
  "tell me"

define flow answer
  user ask question
  bot respond

define subflow ret rail
  execute ret1
''' + "".join(_rail("in", i, "user_message") for i in range(1, N + 1)) + "".join(_rail("out", i, "bot_message") for i in range(1, N + 1))
YAML = "rails:\n  input:\n    flows:\n" + "".join("      - in rail %d\n" % i for i in range(1, N + 1)) + "  output:\n    flows:\n" + "".join("      - out rail %d\n" % i for i in range(1, N + 1)) \
    + "  retrieval:\n    flows:\n      - ret rail\n"


class Rec:
    log = []
    vin = []
    vout = []


def _mk(kind, i):
    async def act(text=None, **kw):
        Rec.log.append(("%s%d" % (kind, i), text))
        v = conc((Rec.vin if kind == "in" else Rec.vout)[i - 1], 0, 2)
        if v == 0:
            return "accept"
        if v == 1:
            return "reject"
        return "REWRITTEN_%s%d" % (kind.upper(), i)

    return act


async def ret1(**kw):
    Rec.log.append(("ret1", None))
    return True


ACTS = {"ret1": ret1}
for _i in range(1, N + 1):
    ACTS["in%d" % _i] = _mk("in", _i)
    ACTS["out%d" % _i] = _mk("out", _i)
APP, LLM = rails.build(COLANG, YAML, ACTS)


def _options():
    if FORM == "list":
        r = [name for name, on in (("input", I_ON), ("dialog", D_ON), ("retrieval", R_ON), ("output", O_ON)) if on]
    else:
        r = {"input": I_ON, "dialog": D_ON, "retrieval": R_ON, "output": O_ON}
    return {"rails": r, "log": {"activated_rails": True}}


def _apply(kind, verdicts, text):
    """Reference: run the rails of one category over a text. Returns (final text or None if rejected, index of rejecting rail, names that ran with the text each saw)."""
    ran = []
    cur = text
    for i in range(N):
        ran.append(("%s%d" % (kind, i + 1), cur))
        if verdicts[i] == 1:
            return None, i, ran
        if verdicts[i] == 2:
            cur = "REWRITTEN_%s%d" % (kind.upper(), i + 1)
    return cur, None, ran


def _call_and_check(prefix_msgs, state=None):
    """One generate call with the slice's options after the given earlier messages; returns (why, response)."""
    Rec.log = []
    LLM.reset(script=["  ask question", '  "LLM says hi"'])
    LLM.log = Rec.log
    supplied = (not D_ON) and O_ON  # the documented use: output rails on a given bot message
    msgs = list(prefix_msgs) + [{"role": "user", "content": "USER TEXT"}]
    if supplied:
        msgs.append({"role": "assistant", "content": "SUPPLIED"})
    why = None
    res = None
    try:
        res = rails.generate(APP, msgs, options=_options(), state=state)
    except rails.Escaped as e:
        why = "generate raised %s" % e
    if why is None:
        want_log = []
        want_rails = []  # (type, name, stop)
        reply = None
        cur = "USER TEXT"
        blocked = False
        if I_ON:
            cur, rej, ran = _apply("in", Rec.vin, cur)
            want_log += ran
            for j in range(len(ran)):
                want_rails.append(("input", "in rail %d" % (j + 1), rej == j))
            if cur is None:
                reply = "REFUSED_IN%d" % (rej + 1)
                blocked = True
                if R_ON:  # the refusal is a bot message: the (enabled) retrieval rails run while it is generated
                    want_log.append(("ret1", None))
        if not blocked:
            if D_ON:
                want_log.append(("llm", 1))
                if R_ON:
                    want_log.append(("ret1", None))
                want_log.append(("llm", 2))
                bot = "LLM says hi"
            elif O_ON:
                bot = "SUPPLIED"
            else:
                bot = None
                reply = cur
            if bot is not None:
                if O_ON:
                    bot, rej, ran = _apply("out", Rec.vout, bot)
                    want_log += ran
                    for j in range(len(ran)):
                        want_rails.append(("output", "out rail %d" % (j + 1), rej == j))
                    reply = bot if bot is not None else "REFUSED_OUT%d" % (rej + 1)
                    if bot is None and R_ON:
                        want_log.append(("ret1", None))
                else:
                    reply = bot
        got_log = [(e[0], e[1]) for e in Rec.log]
        got_rails = [(r.type, r.name, bool(r.stop)) for r in res.log.activated_rails if r.type in ("input", "output")]
        if res.response != [{"role": "assistant", "content": reply}]:
            why = "reply %r, expected %r" % (res.response, reply)
        elif got_log != want_log:
            why = "actions / LLM calls %r, expected %r" % (got_log, want_log)
        elif got_rails != want_rails:
            why = "log.activated_rails %r, expected %r" % (got_rails, want_rails)
        else:
            others = [r for r in res.log.activated_rails if r.type not in ("input", "output")]
            if (not D_ON or blocked) and any(r.type in ("dialog",) for r in others):
                why = "log lists dialog rails although they did not run"
    return why, res


def selected(a0: int, a1: int, b0: int, b1: int) -> bool:
    """
    With the slice's subset of rail categories enabled (list or dict form), symbolic verdicts for the input rails (a*) and output rails (b*):
    the reply follows the documented table, disabled categories never invoke their actions, the LLM is called only by dialog rails, and
    log.activated_rails lists exactly the rails that ran, in order, with stop on exactly the blocking one.
    pre: 0 <= a0 <= 2 and 0 <= a1 <= 2 and 0 <= b0 <= 2 and 0 <= b1 <= 2
    pre: N > 1 or (a1 == 0 and b1 == 0)
    pre: _fixed(a0=a0, b0=b0)
    post: _
    """
    global LAST_INFO
    stubs.reset()
    rails.reset_app(APP)
    Rec.vin = [a0, a1][:N]
    Rec.vout = [b0, b1][:N]
    why, res = _call_and_check([])
    if not rails.is_tracing():
        LAST_INFO = {"options": _options(), "verdicts": {"input": [int(x) for x in Rec.vin], "output": [int(x) for x in Rec.vout]}, "response": getattr(res, "response", None),
                     "observed": list(Rec.log), "why": why}
    return why is None


def selected_second_call(a0: int, a1: int, b0: int, b1: int) -> bool:
    """
    The same table for the SECOND call on one LLMRails instance: the first call is an ordinary turn without options (all rails accept), the second call
    re-sends that history plus a new message with the slice's options (the events cache must not let the earlier, option-free turn decide which rails run).
    pre: 0 <= a0 <= 2 and 0 <= a1 <= 2 and 0 <= b0 <= 2 and 0 <= b1 <= 2
    pre: N > 1 or (a1 == 0 and b1 == 0)
    pre: _fixed(a0=a0, b0=b0)
    post: _
    """
    global LAST_INFO
    stubs.reset()
    rails.reset_app(APP)
    with rails.untraced():  # nothing symbolic in the first call
        Rec.vin = [0] * N
        Rec.vout = [0] * N
        Rec.log = []
        LLM.reset(script=["  ask question", '  "LLM says hi"'])
        first = rails.generate(APP, [{"role": "user", "content": "USER TEXT"}])
    Rec.vin = [a0, a1][:N]
    Rec.vout = [b0, b1][:N]
    why = None
    if first != {"role": "assistant", "content": "LLM says hi"}:
        why = "first (option-free) call: unexpected reply %r" % (first,)
        res = None
    else:
        why, res = _call_and_check([{"role": "user", "content": "USER TEXT"}, first])
    if not rails.is_tracing():
        LAST_INFO = {"first_call": first, "options_second_call": _options(), "verdicts": {"input": [int(x) for x in Rec.vin], "output": [int(x) for x in Rec.vout]},
                     "response": getattr(res, "response", None), "observed": list(Rec.log), "why": why}
    return why is None


def selected_after_blocked_call(a0: int, a1: int, b0: int, b1: int) -> bool:
    """
    The same table for a call that continues, through the explicit `state`, a conversation whose first call ran with `rails=["input"]` and was blocked by the
    input rail (a predefined refusal was produced while the output rails were disabled).
    pre: 0 <= a0 <= 2 and 0 <= a1 <= 2 and 0 <= b0 <= 2 and 0 <= b1 <= 2
    pre: N > 1 or (a1 == 0 and b1 == 0)
    pre: _fixed(a0=a0, b0=b0)
    post: _
    """
    global LAST_INFO
    stubs.reset()
    rails.reset_app(APP)
    with rails.untraced():  # nothing symbolic in the first call
        Rec.vin = [1] * N
        Rec.vout = [0] * N
        Rec.log = []
        LLM.reset(script=[])
        first = rails.generate(APP, [{"role": "user", "content": "USER TEXT"}], options={"rails": ["input"]}, state={})
    Rec.vin = [a0, a1][:N]
    Rec.vout = [b0, b1][:N]
    if first.response != [{"role": "assistant", "content": "REFUSED_IN1"}]:
        why, res = "first (input-only, blocked) call: unexpected reply %r" % (first.response,), None
    else:
        why, res = _call_and_check([], state=first.state)
    if not rails.is_tracing():
        LAST_INFO = {"first_call": first.response, "options_second_call": _options(), "verdicts": {"input": [int(x) for x in Rec.vin], "output": [int(x) for x in Rec.vout]},
                     "response": getattr(res, "response", None), "observed": list(Rec.log), "why": why}
    return why is None


def options_twin(a0: int, a1: int, b0: int, b1: int) -> bool:
    """
    Twin: claims an output rail never blocks (must be refuted when output rails are enabled).
    pre: 0 <= a0 <= 2 and a1 == 0 and 0 <= b0 <= 2 and b1 == 0
    post: _
    """
    stubs.reset()
    rails.reset_app(APP)
    Rec.vin = [a0, a1][:N]
    Rec.vout = [b0, b1][:N]
    Rec.log = []
    LLM.reset(script=["  ask question", '  "LLM says hi"'])
    msgs = [{"role": "user", "content": "USER TEXT"}]
    if (not D_ON) and O_ON:
        msgs.append({"role": "assistant", "content": "SUPPLIED"})
    res = rails.generate(APP, msgs, options=_options())
    return "REFUSED_OUT" not in str(res.response)


SPEC = {
    "property": "C16",
    "functions": FUNCTIONS,
    "bounds": "all 15 non-empty subsets of {input, dialog, retrieval, output} in list form and dict form (one subset per slice), 1 (thorough 2) input and output rails with symbolic verdicts "
              "accept/reject/rewrite, one retrieval rail; a bot message is supplied exactly when dialog is off and output is on (the documented use); Colang 1.0",
    "outside": "Colang 2.x (options unsupported there by design); selecting individual rails by name; user / bot texts are concrete markers; enforce=False (not implemented)",
    "assumptions": ["FakeLLM / StubVec / VLoop as in C01"],
    "explanation": "Oracle: a reference table - input rails (if enabled) over the user text; blocked -> refusal; else dialog on -> 2 LLM calls with the retrieval rail between them iff enabled, "
                   "dialog off -> the supplied message (output on) or the user text (output off); output rails (if enabled) over the bot text. Observed action/LLM call sequence, reply and "
                   "log.activated_rails (input/output entries, order, stop flag) must equal the reference.",
    "conditions": [
        {"fn": "selected_after_blocked_call", "tiers": ("quick",), "slices": [{"mask": m, "form": "list", "n": 1, "fix": {"a0": a}} for m in (15, 9) for a in (0, 1, 2)], "tcond": 900, "tpath": 180,
         "bound": "call continuing a blocked input-only call through `state`, 2 subsets",
         "smoke": [{"slice": {"mask": 9, "form": "list", "n": 1}, "args": dict(a0=0, a1=0, b0=1, b1=0)}]},
        {"fn": "selected_second_call", "tiers": ("quick",), "slices": [{"mask": 9, "form": "list", "n": 1, "fix": {"a0": a}} for a in (0, 1, 2)] + [{"mask": 1, "form": "list", "n": 1}], "tcond": 900, "tpath": 180,
         "bound": "second call on one instance, 2 subsets",
         "smoke": [{"slice": {"mask": 1, "form": "list", "n": 1}, "args": dict(a0=2, a1=0, b0=0, b1=0)}]},
        {"fn": "selected", "tiers": ("quick",), "slices": [{"mask": m, "form": "list", "n": 1, "fix": {"a0": a}} for m in (15, 11, 13, 9) for a in (0, 1, 2)]
            + [{"mask": m, "form": ("list" if m % 2 else "dict"), "n": 1} for m in (14, 10, 12, 8, 7, 5, 3, 1, 6, 4, 2)], "tcond": 900, "tpath": 120, "bound": "15 subsets, 1 rail per category",
         "smoke": [{"slice": {"mask": 15, "form": "dict", "n": 2}, "args": dict(a0=2, a1=0, b0=0, b1=1)}, {"slice": {"mask": 9, "form": "list", "n": 2}, "args": dict(a0=0, a1=2, b0=2, b1=2)},
                   {"slice": {"mask": 1, "form": "list", "n": 1}, "args": dict(a0=1, a1=0, b0=0, b1=0)}]},
        {"fn": "selected_after_blocked_call", "tiers": ("thorough",), "slices": [{"mask": m, "form": "dict", "n": 1} for m in range(1, 16)], "tcond": 1800, "tpath": 180, "bound": "all subsets"},
        {"fn": "selected_second_call", "tiers": ("thorough",), "slices": [{"mask": m, "form": "dict", "n": 1} for m in range(1, 16)], "tcond": 1800, "tpath": 180, "bound": "second call on one instance, all subsets"},
        {"fn": "selected", "tiers": ("thorough",), "slices": [{"mask": m, "form": f, "n": 2} for m in range(1, 16) for f in ("list", "dict")], "tcond": 3000, "tpath": 180, "bound": "15 subsets x 2 forms, 2 rails per category"},
        {"fn": "options_twin", "expect": "counterexample", "slices": [{"mask": 9, "form": "list", "n": 1}], "tcond": 600, "tpath": 120, "bound": "twin"},
    ],
}
