"""C08 - flow calls bind parameters, defaults and return values; locals are private.

Real code: create_flow_instance, _start_flow, slide (Assignment, Return), _expand_await_element / _expand_start_element (at state build),
FlowState.finished_event (return_value), eval_expression of argument expressions in the caller's context.
"""
from harness import v2
from harness.common import conc, sl
from vlib import stubs

FUNCTIONS = [
    "nemoguardrails.colang.v2_x.runtime.statemachine.create_flow_instance",
    "nemoguardrails.colang.v2_x.runtime.statemachine._start_flow",
    "nemoguardrails.colang.v2_x.runtime.statemachine.slide (Assignment, Return, send)",
    "nemoguardrails.colang.v2_x.runtime.statemachine.get_event_from_element / _evaluate_arguments",
    "nemoguardrails.colang.v2_x.runtime.flows.FlowState.finished_event / start_event",
    "nemoguardrails.colang.v2_x.runtime.eval.eval_expression",
    "nemoguardrails.colang.v2_x.lang.expansion._expand_await_element / _expand_start_element (state build, untraced)",
]
LAST_INFO = None

# signatures: list of (name, default source or None, default value)
SIGS = [
    [],
    [("a", None, None)],
    [("a", "5", 5)],
    [("a", None, None), ("b", None, None)],
    [("a", None, None), ("b", "7", 7)],
    [("a", "5", 5), ("b", "7", 7)],
    [("a", None, None), ("b", "7", 7), ("c", '"dflt"', "dflt")],
    [("a", None, None), ("b", None, None), ("c", None, None)],
]
NAMES = ["a", "b", "c"]
SIG = int(sl("sig", 4))
FORM = int(sl("form", 0))  # 0: $r = await callee ..., 1: start ... as $ref + match $ref.Finished(), 2: two concurrent instances
MODE = int(sl("mode", 0))  # 0: arguments are `$i.vJ`; 1: arguments are caller locals whose names clash with other callee parameters
PARAMS = SIGS[SIG]
N = len(PARAMS)


def shapes(n):
    """All call shapes: k positional arguments, then any subset of the remaining parameters passed by name."""
    out = []
    for k in range(n + 1):
        rest = list(range(k, n))
        for mask in range(1 << len(rest)):
            named = [rest[i] for i in range(len(rest)) if mask >> i & 1]
            out.append((k, tuple(named)))
    return out


SHAPES = shapes(N)
# in mode 1 the caller keeps v1 in $a, v2 in $b, v0 in $c and passes $c / $a / $b for parameters a / b / c
ARG_DIRECT = ["$i.v0", "$i.v1", "$i.v2"]
ARG_LOCALS = ["$c", "$a", "$b"]


def call_src(shape, second=False):
    k, named = shape
    args = ARG_LOCALS if MODE == 1 else ARG_DIRECT
    if second:
        args = ["$i.w0", "$i.w1", "$i.w2"]
    parts = ["callee"]
    for j in range(k):
        parts.append(args[j])
    for j in named:
        parts.append("$%s=%s" % (NAMES[j], args[j]))
    return " ".join(parts)


def program(shape):
    sig = " ".join("$%s" % n if d is None else "$%s=%s" % (n, d) for (n, d, _v) in PARAMS)
    echo = ", ".join("p%d=$%s" % (j, PARAMS[j][0]) for j in range(N))
    if FORM == 2:  # a trailing, always named, concrete tag tells the two instances' Echo events apart
        sig = (sig + " $tag=0").strip()
        echo = (echo + ", " if echo else "") + "tag=$tag"
    lines = ["flow callee " + sig if sig else "flow callee"]
    if FORM == 2:
        lines.insert(0, '@loop("NEW")')  # concurrent instances must not compete for the action (that is C05's subject)
        lines.append("  $x = %s" % ("$a" if N else "1"))
        lines.append("  match Tick()")
        lines.append("  send Echo(%s)" % (echo + (", " if echo else "") + "x=$x"))
    else:
        lines.append("  send Echo(%s)" % echo)
    lines.append("  $ret = %s" % ("$a" if N else "42"))
    for (n, _d, _v) in PARAMS:
        lines.append("  $%s = 999" % n)
    lines.append("  $x = 555")
    lines.append("  $r = 556")
    lines.append("  return $ret")
    lines.append("")
    lines.append("flow main")
    lines.append("  match Init() as $i")
    if MODE == 1:
        lines += ["  $a = $i.v1", "  $b = $i.v2", "  $c = $i.v0"]
    else:
        lines += ["  $a = $i.w0", "  $b = $i.w1", "  $c = $i.w2"]
    lines.append("  $x = $i.w0")
    if FORM == 0:
        lines.append("  $r = await " + call_src(shape))
        lines.append("  send Caller(a=$a, b=$b, c=$c, x=$x, r=$r)")
    elif FORM == 1:
        lines.append("  start " + call_src(shape) + " as $ref")
        lines.append("  match $ref.Finished() as $f")
        lines.append("  send Caller(a=$a, b=$b, c=$c, x=$x, r=$f.return_value)")
    else:
        lines.append("  start " + call_src(shape) + " $tag=1 as $r1")
        lines.append("  start " + call_src(shape, second=True) + " $tag=2 as $r2")
        lines.append("  match Tick()")
        lines.append("  send Caller(a=$a, b=$b, c=$c, x=$x, r=0)")
    lines.append("  match Never()")
    return "\n".join(lines) + "\n"


def expected(shape, vals):
    k, named = shape
    out = []
    for j in range(N):
        if j < k or j in named:
            out.append(vals[j])
        else:
            out.append(PARAMS[j][2])
    return out


def _same(x, y):
    for t in (bool, int, str, list, dict, type(None)):
        if isinstance(x, t) != isinstance(y, t):
            return False
    return x == y


def _find(outs, name):
    return [a for (n, a) in outs if n == name]


def binding(shape: int, v0: int, v1: str, k2: int, x2: int, w0: int, w1: int, w2: int) -> bool:
    """
    Every parameter receives the positional / named argument evaluated in the caller or its default; the caller gets the returned value; the callee's
    assignments never change the caller's (or a sibling's) variables of the same name.
    pre: 0 <= shape < len(SHAPES) and 0 <= v0 <= 3 and len(v1) <= 2 and 0 <= k2 <= 3 and 0 <= x2 <= 2
    pre: w0 == 100 and w1 == 200 and w2 == 300
    post: _
    """
    global LAST_INFO
    stubs.reset()
    sh = SHAPES[conc(shape, 0, len(SHAPES) - 1)]
    k2 = conc(k2, 0, 3)
    v2_ = None if k2 == 0 else (True if k2 == 1 else ([x2, x2 + 1] if k2 == 2 else {"k": x2}))
    vals = [v0, v1, v2_]
    src = program(sh)
    with v2.untraced():
        st = v2.new_state(src)
        v2.start(st)
    v2.run_to_completion(st, {"type": "Init", "v0": v0, "v1": v1, "v2": v2_, "w0": w0, "w1": w1, "w2": w2})
    outs = v2.out_events(st)
    if FORM == 2:
        if _find(outs, "Echo") or _find(outs, "Caller"):
            return False
        v2.run_to_completion(st, {"type": "Tick"})
        outs = v2.out_events(st)
    want = expected(sh, vals)
    echoes = _find(outs, "Echo")
    ok = True
    why = None
    want_sets = [want]
    if FORM == 2:
        want_sets.append(expected(sh, [w0, w1, w2]))
    def echo_ok(e, w):
        for j in range(N):
            if not _same(e.get("p%d" % j), w[j]):
                return "parameter %s bound to %r, expected %r" % (PARAMS[j][0], e.get("p%d" % j), w[j])
        if FORM == 2 and N and not _same(e.get("x"), w[0]):
            return "sibling instances share the local $x"
        return None

    if len(echoes) != len(want_sets):
        ok, why = False, "expected %d Echo events, got %d" % (len(want_sets), len(echoes))
    elif FORM != 2:
        why = echo_ok(echoes[0], want_sets[0])
        ok = why is None
    else:
        # the two instances live in their own interaction loops; the order of their Echo events is not specified
        for e in echoes:
            t = e.get("tag")
            if t not in (1, 2):
                ok, why = False, "tag parameter lost"
            else:
                w_ = echo_ok(e, want_sets[t - 1])
                if w_ is not None:
                    ok, why = False, w_
        if ok and echoes[0].get("tag") == echoes[1].get("tag"):
            ok, why = False, "one instance echoed twice"
    callers = _find(outs, "Caller")
    if len(callers) != 1:
        ok, why = False, "caller did not continue exactly once (%d)" % len(callers)
    else:
        c = callers[0]
        keep = [v1, v2_, v0] if MODE == 1 else [w0, w1, w2]
        for n, val in zip(NAMES, keep):
            if not _same(c.get(n), val):
                ok, why = False, "caller variable $%s changed by the call" % n
        if not _same(c.get("x"), w0):
            ok, why = False, "caller variable $x changed by the call"
        if FORM in (0, 1):
            ret = want[0] if N else 42
            if not _same(c.get("r"), ret):
                ok, why = False, "returned value %r, expected %r" % (c.get("r"), ret)
    if not v2.is_tracing():
        LAST_INFO = {"program": src, "init": {"v0": v0, "v1": v1, "v2": v2_, "w": [w0, w1, w2]}, "echo": echoes, "caller": callers, "why": why}
    return ok


def binding_twin(shape: int, v0: int, v1: str, k2: int, x2: int, w0: int, w1: int, w2: int) -> bool:
    """
    Twin: claims a default value is never used (refuted when the signature has defaults and a call shape omits the parameter).
    pre: 0 <= shape < len(SHAPES) and 0 <= v0 <= 3 and len(v1) <= 2 and 0 <= k2 <= 3 and 0 <= x2 <= 2
    pre: w0 == 100 and w1 == 200 and w2 == 300
    post: _
    """
    stubs.reset()
    sh = SHAPES[conc(shape, 0, len(SHAPES) - 1)]
    with v2.untraced():
        st = v2.new_state(program(sh))
        v2.start(st)
    v2.run_to_completion(st, {"type": "Init", "v0": v0, "v1": v1, "v2": None, "w0": w0, "w1": w1, "w2": w2})
    for e in _find(v2.out_events(st), "Echo"):
        if e.get("p1") == 7 and v1 != 7:
            return False
    return True


_ALL = [{"sig": s, "form": f, "mode": m} for s in range(len(SIGS)) for f in (0, 1, 2) for m in (0, 1)]
_QUICK = [x for x in _ALL if (x["sig"] in (1, 4, 6) and x["form"] in (0, 2) and not (x["sig"] == 6 and x["form"] == 2 and x["mode"] == 1)) or (x["sig"] in (5, 7) and x["form"] == 1 and x["mode"] == 1) or (x["sig"] == 0 and x["mode"] == 0)]
SPEC = {
    "property": "C08",
    "functions": FUNCTIONS,
    "bounds": "8 signatures (0-3 parameters, with/without defaults) x every call shape (k positional arguments + any subset of the rest by name; 58 shapes) x 3 call forms "
              "($r = await, start..as $ref + match $ref.Finished(), two concurrent instances) x 2 argument styles (event members / caller locals whose names clash with callee parameters); "
              "argument values symbolic: int 0..3, str len<=2 (any code point), one of None/True/[x,x+1]/{'k':x}; caller decoy variables 100/200/300",
    "outside": "more than 3 parameters; global variables (shared by design); surplus positional arguments (C10); activated flows' parameter matching (C06)",
    "assumptions": ["program text is generated per call shape, parsed/expanded natively; the Init event carrying the symbolic values and everything after is traced"],
    "explanation": "Oracle: 10-line reference binder (positional, then named, else default/None); caller variables named like callee parameters/locals keep their values; "
                   "$r equals the value the callee returned (its first parameter); concurrent instances echo their own arguments and locals.",
    "conditions": [
        {"fn": "binding", "tiers": ("quick",), "slices": _QUICK, "tcond": 600, "tpath": 30, "bound": "representative signatures x all call shapes",
         "smoke": [{"slice": {"sig": 6, "form": 0, "mode": 1}, "args": dict(shape=5, v0=2, v1="q", k2=2, x2=1, w0=100, w1=200, w2=300)},
                   {"slice": {"sig": 7, "form": 2, "mode": 0}, "args": dict(shape=14, v0=3, v1="", k2=3, x2=0, w0=100, w1=200, w2=300)},
                   {"slice": {"sig": 0, "form": 1, "mode": 0}, "args": dict(shape=0, v0=0, v1="ab", k2=0, x2=0, w0=100, w1=200, w2=300)}]},
        {"fn": "binding", "tiers": ("thorough",), "slices": _ALL, "tcond": 1800, "tpath": 60, "bound": "all signatures x shapes x forms x argument styles"},
        {"fn": "binding_twin", "expect": "counterexample", "slices": [{"sig": 4, "form": 0, "mode": 0}], "tcond": 300, "tpath": 30, "bound": "twin"},
    ],
}
