"""C09 - after each event the interpreter is quiescent and its dispatch index is exact.

Real code: run_to_completion (whole loop), _flow_head_changed, _add/_remove_head_(to/from)_event_matching_structures,
_clean_up_state, _abort_flow/_finish_flow, slide - on the programs of harness/progs.py.
"""
from harness import progs, v2
from harness.common import conc, sl
from vlib import stubs

from nemoguardrails.colang.v2_x.lang.colang_ast import SpecOp
from nemoguardrails.colang.v2_x.runtime.flows import FlowHeadStatus, FlowStatus
from nemoguardrails.colang.v2_x.runtime.statemachine import (
    WaitForHeads,
    get_event_name_from_element,
    is_listening_flow,
    is_match_op_element,
)

FUNCTIONS = [
    "nemoguardrails.colang.v2_x.runtime.statemachine.run_to_completion",
    "nemoguardrails.colang.v2_x.runtime.statemachine._flow_head_changed / _add_head_to_event_matching_structures / _remove_head_from_event_matching_structures",
    "nemoguardrails.colang.v2_x.runtime.statemachine._advance_head_front / slide (ForkHead, MergeHeads, WaitForHeads, scopes)",
    "nemoguardrails.colang.v2_x.runtime.statemachine._abort_flow / _finish_flow / _clean_up_state",
    "nemoguardrails.colang.v2_x.runtime.statemachine.add_new_flow_instance / _start_flow",
]
LAST_INFO = None

PROG = sl("prog", "await_child_action")
L = int(sl("L", 2))
S0 = sl("s0")  # optional partition on the first selector
P = progs.PROGRAMS[PROG]
NLET = len(P["letters"])


def invariant(st):
    """Returns None if all C09 invariants hold on the state, else a short description."""
    if len(st.internal_events) != 0:
        return "internal events pending: %d" % len(st.internal_events)
    scan = []
    for uid, fs in st.flow_states.items():
        if fs.uid != uid:
            return "flow_states key/uid mismatch"
        cfg = st.flow_configs[fs.flow_id]
        if fs.status in (FlowStatus.FINISHED, FlowStatus.STOPPED):
            if len(fs.heads) != 0:
                return "done flow %s still holds %d heads" % (fs.flow_id, len(fs.heads))
            continue
        if fs.status == FlowStatus.STOPPING:
            return "flow %s left in STOPPING" % fs.flow_id
        for hid, h in fs.heads.items():
            if h.uid != hid or h.flow_state_uid != uid:
                return "head bookkeeping mismatch in %s" % fs.flow_id
            if h.status == FlowHeadStatus.INACTIVE:
                continue
            if h.status == FlowHeadStatus.MERGING:
                return "head of %s left MERGING" % fs.flow_id
            if not (0 <= h.position < len(cfg.elements)):
                return "active head of running flow %s beyond the end (pos %d)" % (fs.flow_id, h.position)
            el = cfg.elements[h.position]
            if is_match_op_element(el):
                scan.append((get_event_name_from_element(st, fs, el), uid, hid))
            elif not isinstance(el, WaitForHeads):
                return "running flow %s parked on executable element %s at %d" % (fs.flow_id, type(el).__name__, h.position)
        # references of running flows resolve
        for c in fs.child_flow_uids:
            if c not in st.flow_states:
                return "dangling child flow uid in %s" % fs.flow_id
        for a in fs.action_uids:
            if a not in st.actions:
                return "dangling action uid in %s" % fs.flow_id
        for sc, (fl, ac) in fs.scopes.items():
            for a in ac:
                if a not in st.actions:
                    return "dangling scope action in %s" % fs.flow_id
        for k, val in fs.context.items():
            if isinstance(val, v2.Action) and val.uid not in st.actions and val.uid in fs.action_uids:
                return "context action not in state.actions"
    # dispatch index == from-scratch scan (as multisets), reverse map is its exact inverse
    idx = []
    for name, lst in st.event_matching_heads.items():
        for (fu, hu) in lst:
            idx.append((name, fu, hu))
    if sorted(idx) != sorted(scan):
        missing = [x for x in scan if x not in idx]
        stale = [x for x in idx if x not in scan]
        return "index != scan: missing %s stale %s (sizes %d/%d)" % (missing[:2], stale[:2], len(idx), len(scan))
    rev = st.event_matching_heads_reverse_map
    if len(rev) != len(idx):
        return "reverse map size %d != index size %d" % (len(rev), len(idx))
    for (name, fu, hu) in idx:
        if rev.get(fu + hu) != name:
            return "reverse map disagrees for a head of %s" % name
    # flow_id_states == group-by of flow_states
    n = 0
    for fid, lst in st.flow_id_states.items():
        for fs in lst:
            n += 1
            if fs.flow_id != fid or st.flow_states.get(fs.uid) is not fs:
                return "flow_id_states has a stale entry for %s" % fid
    if n != len(st.flow_states):
        return "flow_id_states misses instances (%d vs %d)" % (n, len(st.flow_states))
    if st.main_flow_state is None or st.flow_states.get(st.main_flow_state.uid) is not st.main_flow_state:
        return "main flow state lost"
    return None


def _letter(sel, pay):
    k = conc(sel, 0, NLET - 1)
    lt = P["letters"][k]
    if lt[0] == "ev" and lt[2]:
        # payload values of the letter are offset by the symbolic payload (0 keeps the catalogue value)
        kw = {}
        for name, val in lt[2].items():
            kw[name] = val + pay if isinstance(val, int) else val
        return ("ev", lt[1], kw)
    return lt


def fresh_state():
    """State after the program's native prefix (the `Go` that gets main going): nothing symbolic is involved, so it runs untraced."""
    with v2.untraced():
        stubs.set_choices([0, 0, 0, 0])
        st = v2.new_state(P["src"])
        v2.start(st)
        h = progs.History()
        for k in P.get("prefix", [0]):
            v2.run_to_completion(st, h.event(P["letters"][k]))
            h.observe(st.outgoing_events)
    return st, h


def _run(sels, pays, choices, tadv):
    global LAST_INFO
    stubs.reset()
    st, h = fresh_state()
    stubs.set_choices(choices)
    bad = invariant(st)
    trace = []
    if bad:
        LAST_INFO = {"program": PROG, "after": "start + prefix", "broken": bad}
        return False, st
    for i in range(L):
        if tadv == i:
            stubs.advance(10.0)
        ev = h.event(_letter(sels[i], pays[i]))
        if st.main_flow_state.status == v2.FlowStatus.WAITING:
            v2.start(st)  # like RuntimeV2_x.process_events: a finished main flow is started again before the next event
            h.observe(st.outgoing_events)
        v2.run_to_completion(st, ev)
        h.observe(st.outgoing_events)
        bad = invariant(st)
        if not v2.is_tracing():
            trace.append({"event": ev, "out": v2.out_names(st)})
            LAST_INFO = {"program": PROG, "prefix": [P["letters"][k] for k in P.get("prefix", [0])], "history": trace, "broken": bad}
        if bad:
            return False, st
    return True, st


def _pre(sels, pays, cs, tadv):
    for s in sels:
        if not (0 <= s < NLET):
            return False
    for p in pays:
        if not (0 <= p <= 1):
            return False
    for c in cs:
        if not (0 <= c <= 2):
            return False
    if S0 is not None and sels[0] != int(S0):
        return False
    return 0 <= tadv <= L


def quiescent(s0: int, s1: int, s2: int, s3: int, p0: int, p1: int, p2: int, p3: int, c0: int, c1: int, c2: int, tadv: int) -> bool:
    """
    After the start and after each of L events (selectors over the program's alphabet, payload offsets, tie-breaks, one optional 10 s idle gap
    before step `tadv`), every C09 invariant holds.
    pre: _pre([s0, s1, s2, s3][:L], [p0, p1, p2, p3][:L], [c0, c1, c2], tadv)
    pre: (L > 1 or (s1 == 0 and p1 == 0)) and (L > 2 or (s2 == 0 and p2 == 0)) and (L > 3 or (s3 == 0 and p3 == 0))
    post: _
    """
    ok, _ = _run([s0, s1, s2, s3], [p0, p1, p2, p3], [c0, c1, c2, c0, c1, c2], tadv)
    return ok


def quiescent_twin(s0: int, s1: int, s2: int, s3: int, p0: int, p1: int, p2: int, p3: int, c0: int, c1: int, c2: int, tadv: int) -> bool:
    """
    Twin: claims the dispatch index never changes over a history (must be refuted: the histories do move heads).
    pre: _pre([s0, s1, s2, s3][:L], [p0, p1, p2, p3][:L], [c0, c1, c2], tadv)
    pre: (L > 1 or (s1 == 0 and p1 == 0)) and (L > 2 or (s2 == 0 and p2 == 0)) and (L > 3 or (s3 == 0 and p3 == 0))
    post: _
    """
    stubs.reset()
    st0, _ = fresh_state()
    before = sorted(k for k, lst in st0.event_matching_heads.items() if lst)
    ok, st = _run([s0, s1, s2, s3], [p0, p1, p2, p3], [c0, c1, c2, c0, c1, c2], tadv)
    after = sorted(k for k, lst in st.event_matching_heads.items() if lst)
    return before == after


def _slices(names, L, split=True):
    out = []
    for n in names:
        k = len(progs.PROGRAMS[n]["letters"])
        if split:
            out += [{"prog": n, "L": L, "s0": i} for i in range(k)]
        else:
            out.append({"prog": n, "L": L})
    return out


ALL = progs.names()
SPEC = {
    "property": "C09",
    "functions": FUNCTIONS,
    "bounds": "all catalogue programs of harness/progs.py (await/start children with actions, when/or-when scopes, or-groups of flows, activate (waiting / immediate / two activators), grand-children with and/or "
              "match groups, competing flows, while+if with payload, an action used as a `when` case losing an action conflict, main finished explicitly and restarted, shared actions, repeated activation); after a native prefix (the Go event that gets main going), histories of L=2 (quick) / L=3 all, L=4 on one program (thorough) events over each program's alphabet incl. "
              "ActionStarted/ActionFinished feedback for the actions started so far; payload offsets 0..1; 3 symbolic tie-break values; one optional 10 s idle gap (clean-up) at any step",
    "outside": "programs outside the catalogue; longer histories; more than one idle gap",
    "assumptions": ["the state is built from source natively per path (parse/expansion untraced); everything from the first external event on is traced",
                    "MERGING heads and STOPPING flows after quiescence are counted as violations of 'parked on a waiting statement'"],
    "explanation": "Oracle: internal queue empty; every non-inactive head of a running flow sits on a match or WaitForHeads element inside the flow; done flows hold no heads; "
                   "child/action/scope references of running flows resolve; event_matching_heads equals a from-scratch scan as a multiset; the reverse map is its exact inverse; "
                   "flow_id_states is the group-by of flow_states.",
    "conditions": [
        {"fn": "quiescent", "tiers": ("quick",), "slices": _slices(ALL, 2, split=False) + _slices(["deactivate"], 3),
         "tcond": 900, "tpath": 30, "bound": "prefix + L=2 on all programs; L=3 on the deactivate program",
         "smoke": [{"slice": {"prog": "when_scope", "L": 3}, "args": dict(s0=2, s1=4, s2=5, s3=0, p0=0, p1=0, p2=0, p3=0, c0=0, c1=1, c2=2, tadv=2)},
                   {"slice": {"prog": "activate_two_parents", "L": 3}, "args": dict(s0=3, s1=1, s2=4, s3=0, p0=0, p1=0, p2=0, p3=0, c0=0, c1=0, c2=0, tadv=1)}]},
        {"fn": "quiescent", "tiers": ("thorough",), "slices": _slices(ALL, 3) + [{"prog": "finish_main", "L": 4, "s0": i} for i in range(5)],
         "tcond": 3000, "tpath": 60, "bound": "prefix + L=3 on all programs; L=4 on finish_main (partitioned on the first event)"},
        {"fn": "quiescent_twin", "expect": "counterexample", "slices": [{"prog": "await_child_action", "L": 2}, {"prog": "activate_wait", "L": 2}], "tcond": 300, "tpath": 30, "bound": "twin"},
    ],
}
