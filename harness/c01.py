"""C01 - input rails gate every user message before anything else sees it.

Real code: LLMRails.generate_async -> RuntimeV1_0.generate_events -> compute_next_steps / compute_next_state / slide over the shipped llm_flows.co
(`process user input`, `run input rails`), ActionDispatcher.execute_action, LLMGenerationActions.generate_user_intent / generate_next_step /
generate_bot_message (real prompts); Colang 2.x: RuntimeV2_x.process_events + run_to_completion over library/guardrails.co (`_user_said`, `run input rails`).
"""
from harness import rails
from harness.common import conc, sl
from vlib import stubs

FUNCTIONS = [
    "nemoguardrails.rails.llm.llmrails.LLMRails.generate_async / _get_events_for_messages",
    "nemoguardrails.colang.v1_0.runtime.runtime.RuntimeV1_0.generate_events / _process_start_action",
    "nemoguardrails.colang.v1_0.runtime.flows.compute_next_steps / compute_next_state (incl. `bot stop` handling)",
    "nemoguardrails/rails/llm/llm_flows.co: process user input, run input rails, run dialog rails, generate next step, generate bot message",
    "nemoguardrails.actions.action_dispatcher.ActionDispatcher.execute_action",
    "nemoguardrails.actions.llm.generation.LLMGenerationActions.generate_user_intent / generate_next_step / generate_bot_message",
    "nemoguardrails.colang.v2_x.runtime.runtime.RuntimeV2_x.process_events + statemachine.run_to_completion over library/guardrails.co (_user_said, run input rails)",
]
LAST_INFO = None

N = int(sl("n", 2))
EXC = int(sl("exc", 0))
VER = sl("ver", "1.0")
TURNS = int(sl("turns", 1))
MODE = sl("mode", "dialog")  # dialog: user intents + flows; general: no user messages defined (one general LLM call); passthrough: `passthrough: True`, chat-form request
ORIG = ["ORIGINAL1 hello", "ORIGINAL2 tell me a joke"]
FIX = sl("fix", {})  # optional partition: {"t0": 1, ...}


def _fixed(**kw):
    for k, v in kw.items():
        if k in FIX and v != FIX[k]:
            return False
    return True



def _rail_v1(i):
    if EXC:
        refuse = '    create event InputRailException(message="blocked by rail %d")' % i
    else:
        refuse = "    bot refuse %d" % i
    return '''
define bot refuse %d
  "REFUSED%d"

define subflow rail %d
  $v = execute rail%d(text=$user_message)
  if $v == "reject"
%s
    stop
  if $v != "accept"
    $user_message = $v
''' % (i, i, i, i, refuse)


COLANG_V1 = '''
define user express greeting
  "hello"
  "hi"

define bot express greeting
  "Hello there!"

define flow greeting
  user express greeting
  bot express greeting
''' + "".join(_rail_v1(i) for i in range(1, N + 1))
if MODE != "dialog":
    COLANG_V1 = "".join(_rail_v1(i) for i in range(1, N + 1))
YAML_V1 = ("passthrough: True\n" if MODE == "passthrough" else "") + "enable_rails_exceptions: %s\nrails:\n  input:\n    flows:\n" % ("True" if EXC else "False") \
    + "".join("      - rail %d\n" % i for i in range(1, N + 1))


W = ["zero", "one", "two", "three"]


def _rail_v2(i):
    if EXC:
        refuse = '    send InputRailException(message="blocked by rail %d")' % i
    else:
        refuse = '    bot say "REFUSED%d"' % i
    return '''
flow rail %s $text
  $ok = await Rail%dAction(text=$text)
  if not $ok
%s
    abort
''' % (W[i], i, refuse)


COLANG_V2 = '''
import core
import guardrails

flow input rails $input_text
''' + "".join("  rail %s $input_text\n" % W[i] for i in range(1, N + 1)) + "".join(_rail_v2(i) for i in range(1, N + 1)) + '''
flow main
  activate greeting
  activate fallback

flow greeting
  user said "ORIGINAL1 hello"
  bot say "Hello there!"

flow fallback
  user said "ORIGINAL2 tell me a joke"
  bot say "No jokes today."
'''


class Rec:
    log = []
    verdicts = []  # per turn list of symbolic verdicts
    turn = 0


def _mk_v1(i):
    async def rail(text=None, **kw):
        Rec.log.append(("rail%d" % i, text))
        v = conc(Rec.verdicts[Rec.turn][i - 1], 0, 2)
        if v == 0:
            return "accept"
        if v == 1:
            return "reject"
        return "REWRITTEN%d" % i

    return rail


def _mk_v2(i):
    async def rail(text=None, **kw):
        Rec.log.append(("rail%d" % i, text))
        v = conc(Rec.verdicts[Rec.turn][i - 1], 0, 1)
        return v == 0

    return rail


if VER == "1.0":
    APP, LLM = rails.build(COLANG_V1, YAML_V1, {"rail%d" % i: _mk_v1(i) for i in range(1, N + 1)})
else:
    APP, LLM = rails.build(COLANG_V2, "enable_rails_exceptions: %s\n" % ("True" if EXC else "False"), {"Rail%dAction" % i: _mk_v2(i) for i in range(1, N + 1)}, colang_version="2.x")
    rails.install_handover()  # generate_async always serialises the output state for 2.x; JSON fidelity is C11's subject

SCRIPTS = {0: ["  express greeting"], 1: ["  ask joke", "  bot tell joke", '  "LLM says hi"']}
EXPECT = {0: "Hello there!", 1: "LLM says hi"}
if MODE != "dialog":
    SCRIPTS = {0: ["LLM says hi"], 1: ["LLM says hi"]}
    EXPECT = {0: "LLM says hi", 1: "LLM says hi"}


def _user_text(t, text_id):
    """The user text of turn t: distinct per turn, so that the taint check of a rewritten turn is not confused by the (legitimately unrewritten) text of an earlier turn in the history part of the prompts."""
    return ORIG[text_id] if t == 0 else ORIG[text_id] + " (turn %d)" % (t + 1)


def _check_turn(t, text_id, verdicts, reply, log, prompts):
    """Oracle for one turn (Colang 1.0)."""
    orig = _user_text(t, text_id)
    k = N
    for i in range(N):
        if verdicts[i] == 1:
            k = i
            break
    ran = [e for e in log if e[0].startswith("rail")]
    want_n = min(k + 1, N)
    if [e[0] for e in ran] != ["rail%d" % (i + 1) for i in range(want_n)]:
        return "rails ran %s, expected the first %d in order" % ([e[0] for e in ran], want_n)
    cur = orig
    for i in range(want_n):
        if ran[i][1] != cur:
            return "rail%d saw %r, expected %r" % (i + 1, ran[i][1], cur)
        if verdicts[i] == 2:
            cur = "REWRITTEN%d" % (i + 1)
    llm_calls = [e for e in log if e[0] == "llm"]
    if k < N:
        if llm_calls:
            return "LLM called %d x in a turn whose message was rejected" % len(llm_calls)
        if EXC:
            if reply.get("role") != "exception" or ("rail %d" % (k + 1)) not in str(reply.get("content")):
                return "expected the rail exception of rail %d, got %r" % (k + 1, reply)
        elif reply != {"role": "assistant", "content": "REFUSED%d" % (k + 1)}:
            return "expected the refusal of rail %d, got %r" % (k + 1, reply)
        return None
    # accepted: every generation step comes after the last rail
    last_rail = max(i for i, e in enumerate(log) if e[0].startswith("rail"))
    first_llm = min([i for i, e in enumerate(log) if e[0] == "llm"] or [len(log)])
    if first_llm < last_rail:
        return "an LLM call was made before the last input rail returned"
    if len(llm_calls) != len(SCRIPTS[text_id]):
        return "expected %d LLM calls, saw %d" % (len(SCRIPTS[text_id]), len(llm_calls))
    for p in prompts:
        if cur != orig and orig in p:
            return "a prompt contains the original text although a rail rewrote it"
    if not prompts or (('"%s"' % cur) if MODE == "dialog" else cur) not in prompts[0]:
        return "the user-intent prompt does not contain the text the rails let through"
    if reply != {"role": "assistant", "content": EXPECT[text_id]}:
        return "unexpected reply %r" % (reply,)
    return None


def gated_v1(t0: int, a0: int, a1: int, a2: int, t1: int, b0: int, b1: int, b2: int) -> bool:
    """
    Colang 1.0: per turn, user text selector t (predefined dialog path / full LLM generation path) and one verdict per input rail (0 accept, 1 reject, 2 rewrite).
    pre: 0 <= t0 <= 1 and 0 <= a0 <= 2 and 0 <= a1 <= 2 and 0 <= a2 <= 2 and 0 <= t1 <= 1 and 0 <= b0 <= 2 and 0 <= b1 <= 2 and 0 <= b2 <= 2
    pre: (N > 2 or (a2 == 0 and b2 == 0)) and (TURNS > 1 or (t1 == 0 and b0 == 0 and b1 == 0 and b2 == 0))
    pre: _fixed(t0=t0, a0=a0, t1=t1)
    post: _
    """
    global LAST_INFO
    stubs.reset()
    rails.reset_app(APP)
    Rec.verdicts = [[a0, a1, a2][:N], [b0, b1, b2][:N]]
    messages = []
    why = None
    info = []
    for t in range(TURNS):
        Rec.turn = t
        Rec.log = []
        tid = conc([t0, t1][t], 0, 1)
        LLM.reset(script=SCRIPTS[tid])
        LLM.log = Rec.log
        messages = messages + [{"role": "user", "content": _user_text(t, tid)}]
        try:
            reply = rails.generate(APP, messages)
        except rails.Escaped as e:
            why = "turn %d: generate raised %s" % (t + 1, e)
            break
        why = _check_turn(t, tid, Rec.verdicts[t], reply, Rec.log, LLM.prompts)
        if not rails.is_tracing():
            info.append({"user": _user_text(t, tid), "verdicts": [int(x) for x in Rec.verdicts[t]], "reply": reply, "log": list(Rec.log)})
        if why:
            why = "turn %d: %s" % (t + 1, why)
            break
        messages = messages + [reply if reply.get("role") == "assistant" else {"role": "assistant", "content": ""}]
    if not rails.is_tracing():
        LAST_INFO = {"turns": info, "why": why}
    return why is None


def gated_v2(t0: int, a0: int, a1: int, a2: int) -> bool:
    """
    Colang 2.x + guardrails library, one turn: rails run in order up to the first rejection; a rejected message produces the refusal (or rail exception) and the
    dialog flow waiting for that message does not react.
    pre: 0 <= t0 <= 1 and 0 <= a0 <= 1 and 0 <= a1 <= 1 and 0 <= a2 <= 1
    pre: N > 2 or a2 == 0
    pre: _fixed(t0=t0, a0=a0)
    post: _
    """
    global LAST_INFO
    stubs.reset()
    rails.reset_app(APP)
    Rec.verdicts = [[a0, a1, a2][:N]]
    Rec.turn = 0
    Rec.log = []
    LLM.reset(script=[])
    tid = conc(t0, 0, 1)
    why = None
    reply = None
    try:
        reply = rails.generate(APP, [{"role": "user", "content": ORIG[tid]}])
    except rails.Escaped as e:
        why = "generate raised %s" % e
    if why is None:
        v = Rec.verdicts[0]
        k = N
        for i in range(N):
            if v[i] == 1:
                k = i
                break
        ran = [e[0] for e in Rec.log]
        want_n = min(k + 1, N)
        content = reply.get("content") if isinstance(reply, dict) else reply
        if ran != ["rail%d" % (i + 1) for i in range(want_n)]:
            why = "rails ran %s, expected the first %d in order" % (ran, want_n)
        elif [e[1] for e in Rec.log] != [ORIG[tid]] * want_n:
            why = "a rail did not see the user text"
        elif k < N:
            if EXC:
                excs = [e for e in (reply.get("events") or []) if str(e.get("type", "")).endswith("Exception")]
                if len(excs) != 1 or ("rail %d" % (k + 1)) not in str(excs[0].get("message")):
                    why = "expected the rail exception of rail %d, got %r" % (k + 1, reply)
            elif content != "REFUSED%d" % (k + 1):
                why = "expected the refusal of rail %d, got %r" % (k + 1, reply)
        elif content != ("Hello there!" if tid == 0 else "No jokes today."):
            why = "unexpected reply %r" % (reply,)
    if not rails.is_tracing():
        LAST_INFO = {"user": ORIG[tid], "verdicts": [int(x) for x in Rec.verdicts[0]], "reply": reply, "log": list(Rec.log), "why": why}
    return why is None


def refuse_twin(t0: int, a0: int, a1: int, a2: int, t1: int, b0: int, b1: int, b2: int) -> bool:
    """
    Twin: claims the reply is never a refusal (must be refuted).
    pre: 0 <= t0 <= 1 and 0 <= a0 <= 2 and 0 <= a1 <= 2 and a2 == 0 and t1 == 0 and b0 == 0 and b1 == 0 and b2 == 0
    post: _
    """
    stubs.reset()
    rails.reset_app(APP)
    Rec.verdicts = [[a0, a1, a2][:N]]
    Rec.turn = 0
    Rec.log = []
    tid = conc(t0, 0, 1)
    LLM.reset(script=SCRIPTS[tid])
    reply = rails.generate(APP, [{"role": "user", "content": ORIG[tid]}])
    return "REFUSED" not in str(reply.get("content"))


SPEC = {
    "property": "C01",
    "functions": FUNCTIONS,
    "bounds": "Colang 1.0: 2 (thorough 3) input rails with symbolic verdicts accept/reject/rewrite, configurations with dialog flows, without user messages (general prompt) and in passthrough mode with a chat-form request; user text either on a predefined dialog path (1 LLM call) or on the full generation path "
              "(3 LLM calls: intent, next step, bot message), refusal by bot message or by rail exception (enable_rails_exceptions), 1 turn (quick) / 2 turns (thorough, second turn's verdicts and text "
              "independent). Colang 2.x + library/guardrails.co: 2 (thorough 3) rails accept/reject, both refusal styles, 1 turn.",
    "outside": "user text is a concrete marker string (it only meets equality, template rendering and C-level validators): the rewrite clause is a taint check on markers, not a quantification over strings; "
               "LLM-based rails are represented by actions with the same flow shape; conversations longer than 2 turns",
    "assumptions": ["FakeLLM: duck-typed LLM object recording every prompt; scripted completions", "StubVec embedding provider (offline)", "VLoop virtual-time asyncio loop",
                    "one LLMRails instance per process, events_history_cache cleared per path"],
    "explanation": "Oracle per turn: rails invoked are exactly 1..k+1 in configured order (k = first rejecting rail); each rail sees the text as rewritten by earlier rails; on rejection no LLM call "
                   "happens in the turn and the reply is that rail's refusal / rail exception; otherwise every LLM call comes after the last rail, no prompt contains the original text once rewritten, "
                   "the user-intent prompt contains the text the rails let through, and the reply is the scripted one.",
    "conditions": [
        {"fn": "gated_v1", "tiers": ("quick",), "slices": [{"n": 2, "exc": e, "ver": "1.0", "turns": 1, "fix": {"t0": t}} for e in (0, 1) for t in (0, 1)], "tcond": 900, "tpath": 120, "bound": "v1, n=2, 1 turn",
         "smoke": [{"slice": {"n": 3, "exc": 0, "ver": "1.0", "turns": 2}, "args": dict(t0=1, a0=2, a1=0, a2=2, t1=0, b0=0, b1=1, b2=0)},
                   {"slice": {"n": 2, "exc": 1, "ver": "1.0", "turns": 2}, "args": dict(t0=0, a0=0, a1=1, a2=0, t1=1, b0=2, b1=2, b2=0)}]},
        {"fn": "gated_v1", "tiers": ("quick", "thorough"), "slices": [{"n": 2, "exc": 0, "ver": "1.0", "turns": 1, "mode": m, "fix": {"t0": 0}} for m in ("general", "passthrough")], "tcond": 900, "tpath": 120,
         "bound": "v1, n=2, no user messages defined (general prompt) / passthrough mode with a chat-form request"},
        {"fn": "gated_v1", "tiers": ("quick",), "slices": [{"n": 2, "exc": e, "ver": "1.0", "turns": 2, "fix": {"t0": 0, "a0": 1, "t1": t}} for e in (0, 1) for t in (0, 1)], "tcond": 900, "tpath": 120,
         "bound": "v1, n=2, 2 turns with the first turn rejected by the first rail"},
        {"fn": "gated_v1", "tiers": ("thorough",), "slices": [{"n": 3, "exc": e, "ver": "1.0", "turns": 1, "fix": {"t0": t, "a0": a}} for e in (0, 1) for t in (0, 1) for a in (0, 1, 2)]
                   + [{"n": 2, "exc": e, "ver": "1.0", "turns": 2, "fix": {"t0": t, "a0": a, "t1": t1}} for e in (0, 1) for t in (0, 1) for a in (0, 1, 2) for t1 in (0, 1)],
         "tcond": 3000, "tpath": 180, "bound": "v1, n=2 with 2 turns, n=3 with 1 turn"},
        {"fn": "gated_v2", "tiers": ("quick",), "slices": [{"n": 2, "exc": 0, "ver": "2.x"}, {"n": 2, "exc": 1, "ver": "2.x"}], "tcond": 900, "tpath": 120, "bound": "v2, n=2, 1 turn",
         "smoke": [{"slice": {"n": 3, "exc": 0, "ver": "2.x"}, "args": dict(t0=1, a0=0, a1=0, a2=1)}, {"slice": {"n": 2, "exc": 1, "ver": "2.x"}, "args": dict(t0=0, a0=0, a1=1, a2=0)}]},
        {"fn": "gated_v2", "tiers": ("thorough",), "slices": [{"n": 3, "exc": 0, "ver": "2.x"}, {"n": 3, "exc": 1, "ver": "2.x"}], "tcond": 1800, "tpath": 180, "bound": "v2, n=3"},
        {"fn": "refuse_twin", "expect": "counterexample", "slices": [{"n": 2, "exc": 0, "ver": "1.0", "turns": 1}], "tcond": 600, "tpath": 120, "bound": "twin"},
    ],
}
