"""C15 - conversations served by one LLMRails instance do not influence each other.

(a) get_history_cache_key must separate different conversations (it is the only thing
    _get_events_for_messages uses to decide whether cached events belong to a conversation);
(c) LLMParams (llm_params context manager) under interleaved use on the shared LLM object.
(b)/(d) LLMRails level: see harness/c15_rails.py conditions registered below when available.
"""
import json

from harness.common import sl
from vlib import stubs

import harness.common  # noqa
from nemoguardrails.rails.llm.utils import get_history_cache_key
from nemoguardrails.llm.params import LLMParams, llm_params

stubs.install(clock=False, choice=False)

FUNCTIONS = [
    "nemoguardrails.rails.llm.utils.get_history_cache_key",
    "nemoguardrails.llm.params.LLMParams.__enter__",
    "nemoguardrails.llm.params.LLMParams.__exit__",
    "nemoguardrails.llm.params.llm_params",
]
LAST_INFO = None
ROLES = ["user", "assistant", "context", "event"]
CTX = [{"k": "v"}, {"k": "w"}, {}]
EVT = [{"type": "E1"}, {"type": "E2", "a": 1}, {"type": "E1", "a": ":"}]


def _msg(role, text, idx):
    if role == 0:
        return {"role": "user", "content": text}
    if role == 1:
        return {"role": "assistant", "content": text}
    k = 0 if idx == 0 else (1 if idx == 1 else 2)
    if role == 2:
        return {"role": "context", "content": CTX[k]}
    return {"role": "event", "event": EVT[k]}


def _conv(n, roles, texts, idxs):
    out = []
    k = 0
    while k < n:
        out.append(_msg(roles[k], texts[k], idxs[k]))
        k += 1
    return out


def _canon(conv):
    """(role, content) sequence with contents as the key function sees them."""
    out = []
    for m in conv:
        if m["role"] in ("user", "assistant"):
            out.append((m["role"], m["content"]))
        elif m["role"] == "context":
            out.append((m["role"], json.dumps(m["content"])))
        else:
            out.append((m["role"], json.dumps(m["event"])))
    return out


def _same(a, b):
    if len(a) != len(b):
        return False
    for x, y in zip(a, b):
        if x[0] != y[0] or x[1] != y[1]:
            return False
    return True


def _joined(conv):
    return ":".join([c for _, c in _canon(conv)])


def _ranges(n1, n2, rs, ks, NMAX, RMAX):
    if not (0 <= n1 <= NMAX and 0 <= n2 <= NMAX):
        return False
    for r in rs:
        if not (0 <= r <= RMAX):
            return False
    for k in ks:
        if not (0 <= k <= 2):
            return False
    return True


NMAX = int(sl("nmax", 2))
RMAX = int(sl("rmax", 1))
TLEN = int(sl("tlen", 2))


def _tl(*ts):
    for t in ts:
        if len(t) > TLEN:
            return False
    return True


def key_injective(n1: int, n2: int, r10: int, r11: int, r12: int, r20: int, r21: int, r22: int,
                  t10: str, t11: str, t12: str, t20: str, t21: str, t22: str, k1: int, k2: int) -> bool:
    """
    Raw statement: equal cache keys => same conversation.  (Used to replay the known finding's witness.)
    pre: _ranges(n1, n2, [r10, r11, r12, r20, r21, r22], [k1, k2], NMAX, RMAX)
    pre: _tl(t10, t11, t12, t20, t21, t22)
    post: _
    """
    global LAST_INFO
    c1 = _conv(n1, [r10, r11, r12], [t10, t11, t12], [k1, k1, k1])
    c2 = _conv(n2, [r20, r21, r22], [t20, t21, t22], [k2, k2, k2])
    key1 = get_history_cache_key(c1)
    key2 = get_history_cache_key(c2)
    if not stubs_tracing():
        LAST_INFO = {"conv1": c1, "conv2": c2, "key1": key1, "key2": key2}
    if key1 == key2:
        return _same(_canon(c1), _canon(c2))
    return True


def stubs_tracing():
    try:
        from crosshair.tracers import is_tracing

        return is_tracing()
    except ImportError:
        return False


def region_key_join(slice_, a):
    """Known finding C15-key: the key is the ':'-join of the contents, without roles and without escaping.
    A collision is covered iff the two conversations have the same ':'-join of ALL their contents."""
    c1 = _conv(a["n1"], [a["r10"], a["r11"], a["r12"]], [a["t10"], a["t11"], a["t12"]], [a["k1"]] * 3)
    c2 = _conv(a["n2"], [a["r20"], a["r21"], a["r22"]], [a["t20"], a["t21"], a["t22"]], [a["k2"]] * 3)
    return _joined(c1) == _joined(c2)


def key_separates_outside_known(n1: int, n2: int, r10: int, r11: int, r12: int, r20: int, r21: int, r22: int,
                                t10: str, t11: str, t12: str, t20: str, t21: str, t22: str, k1: int, k2: int) -> bool:
    """
    Everything not explained by the recorded finding: conversations whose full ':'-joins differ get different keys
    (no message kind is dropped from the key, nothing is truncated or normalised).
    pre: _ranges(n1, n2, [r10, r11, r12, r20, r21, r22], [k1, k2], NMAX, RMAX)
    pre: _tl(t10, t11, t12, t20, t21, t22)
    post: _
    """
    global LAST_INFO
    c1 = _conv(n1, [r10, r11, r12], [t10, t11, t12], [k1, k1, k1])
    c2 = _conv(n2, [r20, r21, r22], [t20, t21, t22], [k2, k2, k2])
    if _joined(c1) == _joined(c2):
        return True  # the listed region (or the same conversation)
    key1 = get_history_cache_key(c1)
    key2 = get_history_cache_key(c2)
    if not stubs_tracing():
        LAST_INFO = {"conv1": c1, "conv2": c2, "key1": key1, "key2": key2}
    return key1 != key2


def key_twin(n1: int, n2: int, r10: int, r11: int, r12: int, r20: int, r21: int, r22: int,
             t10: str, t11: str, t12: str, t20: str, t21: str, t22: str, k1: int, k2: int) -> bool:
    """
    Twin: claims two different non-empty conversations never get different keys.
    pre: _ranges(n1, n2, [r10, r11, r12, r20, r21, r22], [k1, k2], NMAX, RMAX)
    pre: _tl(t10, t11, t12, t20, t21, t22)
    post: _
    """
    c1 = _conv(n1, [r10, r11, r12], [t10, t11, t12], [k1, k1, k1])
    c2 = _conv(n2, [r20, r21, r22], [t20, t21, t22], [k2, k2, k2])
    return not (n1 >= 1 and n2 >= 2 and get_history_cache_key(c1) != get_history_cache_key(c2))


# ---------------------------------------------------------------------------
# (c) LLMParams under interleaving
# ---------------------------------------------------------------------------
class AttrLLM:
    """LLM object with a plain attribute (hasattr path)."""

    def __init__(self, t):
        self.temperature = t
        self.top_p = 9


class KwLLM:
    """LLM object that keeps parameters in model_kwargs."""

    def __init__(self, t, present=True):
        self.model_kwargs = {"top_p": 9}
        if present:
            self.model_kwargs["temperature"] = t


KIND = sl("kind", "attr")
CONFIGURED = 7


def _get(llm):
    if KIND == "attr":
        return llm.temperature
    return llm.model_kwargs.get("temperature")


def _run_schedule(sched, temps, ntasks):
    """sched: list of task picks; each task performs enter, call, exit in order. Returns (observations, final, overlap_ok)."""
    llm = AttrLLM(CONFIGURED) if KIND == "attr" else KwLLM(CONFIGURED)
    mgr = [llm_params(llm, temperature=temps[k]) for k in range(ntasks)]
    step = [0] * ntasks
    obs = [None] * ntasks
    stack = []  # tasks whose block is open, in entry order
    disciplined = True  # every call made while the caller's block is the innermost open one; exits in LIFO order
    for pick in sched:
        k = 0
        while k < ntasks - 1:
            if pick == k:
                break
            k += 1
        if step[k] == 0:
            mgr[k].__enter__()
            stack.append(k)
        elif step[k] == 1:
            obs[k] = _get(llm)
            if stack[-1] != k:
                disciplined = False
        elif step[k] == 2:
            mgr[k].__exit__(None, None, None)
            if stack[-1] != k:
                disciplined = False
            stack.remove(k)
        else:
            return None
        step[k] += 1
    for k in range(ntasks):
        if step[k] != 3:
            return None
    return obs, _get(llm), disciplined


def _sched_ok(sched, ntasks):
    for p in sched:
        if not (0 <= p < ntasks):
            return False
    return True


def params_isolated(p0: int, p1: int, p2: int, p3: int, p4: int, p5: int, ta: int, tb: int) -> bool:
    """
    Raw statement for two tasks: each call runs with its own temperature and afterwards the LLM has the configured value.
    pre: _sched_ok([p0, p1, p2, p3, p4, p5], 2) and 0 <= ta <= 1 and 0 <= tb <= 1
    post: _
    """
    global LAST_INFO
    r = _run_schedule([p0, p1, p2, p3, p4, p5], [ta, tb], 2)
    if r is None:
        return True  # not a complete schedule
    obs, final, disciplined = r
    if not stubs_tracing():
        LAST_INFO = {"schedule": [p0, p1, p2, p3, p4, p5], "temps": [ta, tb], "observed": obs, "final": final}
    return obs[0] == ta and obs[1] == tb and final == CONFIGURED


def region_params_overlap(slice_, a):
    """Known finding C15-params: `with llm_params(...)` blocks of different requests that overlap without stack discipline."""
    r = _run_schedule([a["p0"], a["p1"], a["p2"], a["p3"], a["p4"], a["p5"]], [a["ta"], a["tb"]], 2)
    return r is not None and not r[2]


def params_disciplined(p0: int, p1: int, p2: int, p3: int, p4: int, p5: int, ta: int, tb: int) -> bool:
    """
    Outside the recorded finding: sequential and properly nested use (calls made in the innermost block, LIFO exits).
    pre: _sched_ok([p0, p1, p2, p3, p4, p5], 2) and 0 <= ta <= 1 and 0 <= tb <= 1
    post: _
    """
    global LAST_INFO
    r = _run_schedule([p0, p1, p2, p3, p4, p5], [ta, tb], 2)
    if r is None:
        return True
    obs, final, disciplined = r
    if not disciplined:
        return True
    if not stubs_tracing():
        LAST_INFO = {"schedule": [p0, p1, p2, p3, p4, p5], "temps": [ta, tb], "observed": obs, "final": final}
    return obs[0] == ta and obs[1] == tb and final == CONFIGURED


def params3_disciplined(p0: int, p1: int, p2: int, p3: int, p4: int, p5: int, p6: int, p7: int, p8: int, ta: int, tb: int, tc: int) -> bool:
    """
    Three tasks, disciplined schedules.
    pre: _sched_ok([p0, p1, p2, p3, p4, p5, p6, p7, p8], 3) and 0 <= ta <= 1 and 0 <= tb <= 1 and 0 <= tc <= 1
    post: _
    """
    r = _run_schedule([p0, p1, p2, p3, p4, p5, p6, p7, p8], [ta, tb, tc], 3)
    if r is None:
        return True
    obs, final, disciplined = r
    if not disciplined:
        return True
    return obs[0] == ta and obs[1] == tb and obs[2] == tc and final == CONFIGURED


def params_twin(p0: int, p1: int, p2: int, p3: int, p4: int, p5: int, ta: int, tb: int) -> bool:
    """
    Twin: claims no complete disciplined nested schedule exists.
    pre: _sched_ok([p0, p1, p2, p3, p4, p5], 2) and 0 <= ta <= 1 and 0 <= tb <= 1
    post: _
    """
    r = _run_schedule([p0, p1, p2, p3, p4, p5], [ta, tb], 2)
    return not (r is not None and r[2] and p0 != p1 and ta != tb)


_KEY_SMOKE = {"n1": 2, "n2": 2, "r10": 0, "r11": 1, "r12": 0, "r20": 0, "r21": 0, "r22": 0,
              "t10": "hi", "t11": "yo", "t12": "", "t20": "hi", "t21": "yx", "t22": "", "k1": 0, "k2": 1}

SPEC = {
    "property": "C15",
    "functions": FUNCTIONS,
    "bounds": "(a) two conversations of 0..2 (quick) / 0..3 (thorough) messages, roles user/assistant (quick) + context/event from 3-entry pools (thorough), "
              "contents symbolic strings len<=2; (c) all interleavings of 2 (and 3) tasks each doing enter/call/exit on one shared LLM object, temperatures 0..1, "
              "attribute-backed and model_kwargs-backed LLM objects",
    "outside": "conversations longer than 3 messages; more than 3 tasks; real provider classes; LLMRails-level interleaving (b,d) is not covered by this check yet",
    "assumptions": ["known findings (known_findings.json): cache key = ':'-join without roles/escaping; LLMParams restores stale values when blocks of different requests overlap"],
    "explanation": "Known-finding regions are excluded by an explicit early return in the *_outside_known / *_disciplined conditions; the raw conditions are only used to replay the witnesses.",
    "conditions": [
        {"fn": "key_separates_outside_known", "tiers": ("quick",), "slices": [{"nmax": 2, "rmax": 1, "tlen": 1}], "tcond": 400, "tpath": 10,
         "bound": "n<=2, roles user/assistant, texts len<=2", "smoke": [{"slice": {"nmax": 3, "rmax": 3}, "args": _KEY_SMOKE}]},
        {"fn": "key_separates_outside_known", "tiers": ("thorough",), "slices": [{"nmax": 3, "rmax": 3, "tlen": 2}], "tcond": 1500, "tpath": 10,
         "bound": "n<=3, all four roles, texts len<=2"},
        {"fn": "key_injective", "expect": "known_or_confirmed", "slices": [{"nmax": 2, "rmax": 1, "tlen": 2}], "tcond": 300, "tpath": 10,
         "bound": "raw statement; the solver is expected to re-find the recorded finding (any counterexample outside its region is a violation)"},
        {"fn": "params_isolated", "expect": "known_or_confirmed", "slices": [{"kind": "attr"}, {"kind": "kw"}], "tcond": 300, "tpath": 10,
         "bound": "raw statement over all schedules; expected to re-find the recorded finding"},
        {"fn": "key_twin", "expect": "counterexample", "slices": [{"nmax": 2, "rmax": 1}], "tcond": 120, "tpath": 10, "bound": "twin"},
        {"fn": "params_disciplined", "slices": [{"kind": "attr"}, {"kind": "kw"}], "tcond": 300, "tpath": 10,
         "bound": "2 tasks, every 6-step schedule, temps 0..1", "smoke": [{"slice": {"kind": "attr"}, "args": {"p0": 0, "p1": 1, "p2": 1, "p3": 1, "p4": 0, "p5": 0, "ta": 0, "tb": 1}}]},
        {"fn": "params3_disciplined", "tiers": ("thorough",), "slices": [{"kind": "attr"}, {"kind": "kw"}], "tcond": 1500, "tpath": 10,
         "bound": "3 tasks, every 9-step schedule"},
        {"fn": "params_twin", "expect": "counterexample", "slices": [{"kind": "attr"}], "tcond": 120, "tpath": 10, "bound": "twin"},
    ],
}
