"""C15 - conversations served by one LLMRails instance do not influence each other.

(a) get_history_cache_key must separate different conversations (it is the only thing
    _get_events_for_messages uses to decide whether cached events belong to a conversation);
(c) LLMParams (llm_params context manager) under interleaved use on the shared LLM object.
(b)/(d) LLMRails level: see harness/c15_rails.py conditions registered below when available.
"""
import json

from harness.common import sl
from vlib import stubs

import harness.common  # noqa
from nemoguardrails.rails.llm.utils import get_history_cache_key
from nemoguardrails.llm.params import LLMParams, llm_params

stubs.install(clock=False, choice=False)

FUNCTIONS = [
    "nemoguardrails.rails.llm.utils.get_history_cache_key",
    "nemoguardrails.llm.params.LLMParams.__enter__",
    "nemoguardrails.llm.params.LLMParams.__exit__",
    "nemoguardrails.llm.params.llm_params",
]
LAST_INFO = None
ROLES = ["user", "assistant", "context", "event"]
CTX = [{"k": "v"}, {"k": "w"}, {}]
EVT = [{"type": "E1"}, {"type": "E2", "a": 1}, {"type": "E1", "a": ":"}]


def _msg(role, text, idx):
    if role == 0:
        return {"role": "user", "content": text}
    if role == 1:
        return {"role": "assistant", "content": text}
    k = 0 if idx == 0 else (1 if idx == 1 else 2)
    if role == 2:
        return {"role": "context", "content": CTX[k]}
    return {"role": "event", "event": EVT[k]}


def _conv(n, roles, texts, idxs):
    out = []
    k = 0
    while k < n:
        out.append(_msg(roles[k], texts[k], idxs[k]))
        k += 1
    return out


def _canon(conv):
    """(role, content) sequence with contents as the key function sees them."""
    out = []
    for m in conv:
        if m["role"] in ("user", "assistant"):
            out.append((m["role"], m["content"]))
        elif m["role"] == "context":
            out.append((m["role"], json.dumps(m["content"])))
        else:
            out.append((m["role"], json.dumps(m["event"])))
    return out


def _same(a, b):
    if len(a) != len(b):
        return False
    for x, y in zip(a, b):
        if x[0] != y[0] or x[1] != y[1]:
            return False
    return True


def _joined(conv):
    return ":".join([c for _, c in _canon(conv)])


def _ranges(n1, n2, rs, ks, NMAX, RMAX):
    if not (0 <= n1 <= NMAX and 0 <= n2 <= NMAX):
        return False
    for r in rs:
        if not (0 <= r <= RMAX):
            return False
    for k in ks:
        if not (0 <= k <= 2):
            return False
    return True


NMAX = int(sl("nmax", 2))
RMAX = int(sl("rmax", 1))
TLEN = int(sl("tlen", 2))


def _tl(*ts):
    for t in ts:
        if len(t) > TLEN:
            return False
    return True


def key_injective(n1: int, n2: int, r10: int, r11: int, r12: int, r20: int, r21: int, r22: int,
                  t10: str, t11: str, t12: str, t20: str, t21: str, t22: str, k1: int, k2: int) -> bool:
    """
    Raw statement: equal cache keys => same conversation.  (Used to replay the known finding's witness.)
    pre: _ranges(n1, n2, [r10, r11, r12, r20, r21, r22], [k1, k2], NMAX, RMAX)
    pre: _tl(t10, t11, t12, t20, t21, t22)
    post: _
    """
    global LAST_INFO
    c1 = _conv(n1, [r10, r11, r12], [t10, t11, t12], [k1, k1, k1])
    c2 = _conv(n2, [r20, r21, r22], [t20, t21, t22], [k2, k2, k2])
    key1 = get_history_cache_key(c1)
    key2 = get_history_cache_key(c2)
    if not stubs_tracing():
        LAST_INFO = {"conv1": c1, "conv2": c2, "key1": key1, "key2": key2}
    if key1 == key2:
        return _same(_canon(c1), _canon(c2))
    return True


def stubs_tracing():
    try:
        from crosshair.tracers import is_tracing

        return is_tracing()
    except ImportError:
        return False


def region_key_join(slice_, a):
    """Known finding C15-key: the key is the ':'-join of the contents, without roles and without escaping.
    A collision is covered iff the two conversations have the same ':'-join of ALL their contents."""
    c1 = _conv(a["n1"], [a["r10"], a["r11"], a["r12"]], [a["t10"], a["t11"], a["t12"]], [a["k1"]] * 3)
    c2 = _conv(a["n2"], [a["r20"], a["r21"], a["r22"]], [a["t20"], a["t21"], a["t22"]], [a["k2"]] * 3)
    return _joined(c1) == _joined(c2)


def key_separates_outside_known(n1: int, n2: int, r10: int, r11: int, r12: int, r20: int, r21: int, r22: int,
                                t10: str, t11: str, t12: str, t20: str, t21: str, t22: str, k1: int, k2: int) -> bool:
    """
    Everything not explained by the recorded finding: conversations whose full ':'-joins differ get different keys
    (no message kind is dropped from the key, nothing is truncated or normalised).
    pre: _ranges(n1, n2, [r10, r11, r12, r20, r21, r22], [k1, k2], NMAX, RMAX)
    pre: _tl(t10, t11, t12, t20, t21, t22)
    post: _
    """
    global LAST_INFO
    c1 = _conv(n1, [r10, r11, r12], [t10, t11, t12], [k1, k1, k1])
    c2 = _conv(n2, [r20, r21, r22], [t20, t21, t22], [k2, k2, k2])
    if _joined(c1) == _joined(c2):
        return True  # the listed region (or the same conversation)
    key1 = get_history_cache_key(c1)
    key2 = get_history_cache_key(c2)
    if not stubs_tracing():
        LAST_INFO = {"conv1": c1, "conv2": c2, "key1": key1, "key2": key2}
    return key1 != key2


def key_twin(n1: int, n2: int, r10: int, r11: int, r12: int, r20: int, r21: int, r22: int,
             t10: str, t11: str, t12: str, t20: str, t21: str, t22: str, k1: int, k2: int) -> bool:
    """
    Twin: claims two different non-empty conversations never get different keys.
    pre: _ranges(n1, n2, [r10, r11, r12, r20, r21, r22], [k1, k2], NMAX, RMAX)
    pre: _tl(t10, t11, t12, t20, t21, t22)
    post: _
    """
    c1 = _conv(n1, [r10, r11, r12], [t10, t11, t12], [k1, k1, k1])
    c2 = _conv(n2, [r20, r21, r22], [t20, t21, t22], [k2, k2, k2])
    return not (n1 >= 1 and n2 >= 2 and get_history_cache_key(c1) != get_history_cache_key(c2))


# ---------------------------------------------------------------------------
# (c) LLMParams under interleaving
# ---------------------------------------------------------------------------
class AttrLLM:
    """LLM object with a plain attribute (hasattr path)."""

    def __init__(self, t):
        self.temperature = t
        self.top_p = 9


class KwLLM:
    """LLM object that keeps parameters in model_kwargs."""

    def __init__(self, t, present=True):
        self.model_kwargs = {"top_p": 9}
        if present:
            self.model_kwargs["temperature"] = t


KIND = sl("kind", "attr")
CONFIGURED = 7


def _get(llm):
    if KIND == "attr":
        return llm.temperature
    return llm.model_kwargs.get("temperature")


def _run_schedule(sched, temps, ntasks):
    """sched: list of task picks; each task performs enter, call, exit in order. Returns (observations, final, overlap_ok)."""
    llm = AttrLLM(CONFIGURED) if KIND == "attr" else KwLLM(CONFIGURED)
    mgr = [llm_params(llm, temperature=temps[k]) for k in range(ntasks)]
    step = [0] * ntasks
    obs = [None] * ntasks
    stack = []  # tasks whose block is open, in entry order
    disciplined = True  # every call made while the caller's block is the innermost open one; exits in LIFO order
    for pick in sched:
        k = 0
        while k < ntasks - 1:
            if pick == k:
                break
            k += 1
        if step[k] == 0:
            mgr[k].__enter__()
            stack.append(k)
        elif step[k] == 1:
            obs[k] = _get(llm)
            if stack[-1] != k:
                disciplined = False
        elif step[k] == 2:
            mgr[k].__exit__(None, None, None)
            if stack[-1] != k:
                disciplined = False
            stack.remove(k)
        else:
            return None
        step[k] += 1
    for k in range(ntasks):
        if step[k] != 3:
            return None
    return obs, _get(llm), disciplined


def _sched_ok(sched, ntasks):
    for p in sched:
        if not (0 <= p < ntasks):
            return False
    return True


def params_isolated(p0: int, p1: int, p2: int, p3: int, p4: int, p5: int, ta: int, tb: int) -> bool:
    """
    Raw statement for two tasks: each call runs with its own temperature and afterwards the LLM has the configured value.
    pre: _sched_ok([p0, p1, p2, p3, p4, p5], 2) and 0 <= ta <= 1 and 0 <= tb <= 1
    post: _
    """
    global LAST_INFO
    r = _run_schedule([p0, p1, p2, p3, p4, p5], [ta, tb], 2)
    if r is None:
        return True  # not a complete schedule
    obs, final, disciplined = r
    if not stubs_tracing():
        LAST_INFO = {"schedule": [p0, p1, p2, p3, p4, p5], "temps": [ta, tb], "observed": obs, "final": final}
    return obs[0] == ta and obs[1] == tb and final == CONFIGURED


def region_params_overlap(slice_, a):
    """Known finding C15-params: `with llm_params(...)` blocks of different requests that overlap without stack discipline."""
    r = _run_schedule([a["p0"], a["p1"], a["p2"], a["p3"], a["p4"], a["p5"]], [a["ta"], a["tb"]], 2)
    return r is not None and not r[2]


def params_disciplined(p0: int, p1: int, p2: int, p3: int, p4: int, p5: int, ta: int, tb: int) -> bool:
    """
    Outside the recorded finding: sequential and properly nested use (calls made in the innermost block, LIFO exits).
    pre: _sched_ok([p0, p1, p2, p3, p4, p5], 2) and 0 <= ta <= 1 and 0 <= tb <= 1
    post: _
    """
    global LAST_INFO
    r = _run_schedule([p0, p1, p2, p3, p4, p5], [ta, tb], 2)
    if r is None:
        return True
    obs, final, disciplined = r
    if not disciplined:
        return True
    if not stubs_tracing():
        LAST_INFO = {"schedule": [p0, p1, p2, p3, p4, p5], "temps": [ta, tb], "observed": obs, "final": final}
    return obs[0] == ta and obs[1] == tb and final == CONFIGURED


def params3_disciplined(p0: int, p1: int, p2: int, p3: int, p4: int, p5: int, p6: int, p7: int, p8: int, ta: int, tb: int, tc: int) -> bool:
    """
    Three tasks, disciplined schedules.
    pre: _sched_ok([p0, p1, p2, p3, p4, p5, p6, p7, p8], 3) and 0 <= ta <= 1 and 0 <= tb <= 1 and 0 <= tc <= 1
    post: _
    """
    r = _run_schedule([p0, p1, p2, p3, p4, p5, p6, p7, p8], [ta, tb, tc], 3)
    if r is None:
        return True
    obs, final, disciplined = r
    if not disciplined:
        return True
    return obs[0] == ta and obs[1] == tb and obs[2] == tc and final == CONFIGURED


def params_twin(p0: int, p1: int, p2: int, p3: int, p4: int, p5: int, ta: int, tb: int) -> bool:
    """
    Twin: claims no complete disciplined nested schedule exists.
    pre: _sched_ok([p0, p1, p2, p3, p4, p5], 2) and 0 <= ta <= 1 and 0 <= tb <= 1
    post: _
    """
    r = _run_schedule([p0, p1, p2, p3, p4, p5], [ta, tb], 2)
    return not (r is not None and r[2] and p0 != p1 and ta != tb)



# ---------------------------------------------------------------------------------------------------------------------------------
# (b)/(d) LLMRails level: two conversations X, Y served by ONE LLMRails instance from ONE asyncio context, in a symbolic interleaving
# ---------------------------------------------------------------------------------------------------------------------------------
RAILS_ON = bool(sl("rails", 0))
FIX = sl("fix", {})
TEXTS = [["hi", "XQ please"], ["hi", "YQ please"]]  # both conversations open identically: their histories share a prefix (and its cache key)
if RAILS_ON:
    from harness import rails as _rails
    from harness.common import conc
    from harness.vloop import VLoop

    FUNCTIONS += [
        "nemoguardrails.rails.llm.llmrails.LLMRails.generate_async (options -> generation_options_var, events_history_cache lookup and update)",
        "nemoguardrails.rails.llm.llmrails.LLMRails._get_events_for_messages",
        "nemoguardrails.actions.llm.generation.LLMGenerationActions.generate_user_intent / generate_bot_message (llm_params from the generation options)",
        "nemoguardrails.colang.v1_0.runtime (generate_events, compute_next_steps)",
    ]
    _COLANG = """
define user ask question
  "tell me"

define flow answer
  user ask question
  bot respond
"""
    APP, LLM = _rails.build(_COLANG, "")

    class _R:
        calls = 0

    def _responder(prompt, n):
        k = _R.calls
        _R.calls += 1
        if k % 2 == 0:
            return "  ask question"
        return '  "R%s"' % "".join(m for m in ("XQ", "YQ") if m in prompt)

    def _serve(sched, opts):
        """Serve the turns of the conversations named by sched (list of 0/1) sequentially from one coroutine on one LLMRails instance.
        Returns per conversation the replies, the prompts the LLM saw for it and the temperature of each of its LLM calls, plus the temperature at rest."""
        _rails.reset_app(APP)
        LLM.reset(responder=_responder)
        LLM.temperature = 7
        out = {0: {"replies": [], "prompts": [], "params": []}, 1: {"replies": [], "prompts": [], "params": []}}
        box = {}

        async def go():
            try:
                hist = {0: [], 1: []}
                for c in sched:
                    t = len(out[c]["replies"])
                    msgs = hist[c] + [{"role": "user", "content": TEXTS[c][t]}]
                    _R.calls = 0
                    n0 = len(LLM.prompts)
                    if opts[c]:
                        r = await APP.generate_async(messages=msgs, options={"llm_params": {"temperature": 3}})
                        content = r.response[0]["content"]
                    else:
                        r = await APP.generate_async(messages=msgs)
                        content = r["content"]
                    out[c]["replies"].append(content)
                    out[c]["prompts"] += LLM.prompts[n0:]
                    out[c]["params"] += LLM.params_seen[n0:]
                    hist[c] = msgs + [{"role": "assistant", "content": content}]
                box["ok"] = True
            except BaseException as e:  # noqa
                box["exc"] = e

        loop = VLoop()
        loop.create_task(go())
        loop.run(max_steps=400000)
        if "exc" in box:
            if isinstance(box["exc"], Exception):
                return {"error": repr(box["exc"])}
            raise box["exc"]
        if "ok" not in box:
            return {"error": "did not complete"}
        out["rest"] = LLM.temperature
        return out

    # reference: each conversation served alone on a cleared instance, for both option settings (run natively at import)
    stubs.reset()
    SOLO = {}
    for _c in (0, 1):
        for _o in (0, 1):
            stubs.reset()
            _r = _serve([_c, _c], {0: _o, 1: _o})
            assert "error" not in _r, _r
            SOLO[(_c, _o)] = _r[_c]
    assert SOLO[(0, 0)]["replies"] == ["R", "RXQ"] and SOLO[(1, 1)]["replies"] == ["R", "RYQ"], SOLO
    assert SOLO[(0, 1)]["params"] == [3, 3, 3, 3] or 3 in SOLO[(0, 1)]["params"], SOLO[(0, 1)]["params"]


def _fixed(**kw):
    for k, v in kw.items():
        if k in FIX and v != FIX[k]:
            return False
    return True


def convs_independent(s0: int, s1: int, s2: int, s3: int, ox: int, oy: int) -> bool:
    """
    Two two-turn conversations X and Y (identical first message, so their histories share a prefix) are served by one LLMRails instance from one asyncio
    context in the interleaving s0..s3 (which conversation is served at each step); X / Y pass `llm_params` (temperature 3) in their options iff ox / oy.
    For every interleaving and option setting, each conversation's replies, the prompts the LLM sees for it and the temperature of each of its LLM calls
    are those of the same conversation served alone, and afterwards the LLM object's temperature is the configured one.
    pre: 0 <= s0 <= 1 and 0 <= s1 <= 1 and 0 <= s2 <= 1 and 0 <= s3 <= 1 and s0 + s1 + s2 + s3 == 2
    pre: 0 <= ox <= 1 and 0 <= oy <= 1
    pre: _fixed(s0=s0, s1=s1, ox=ox, oy=oy)
    post: _
    """
    global LAST_INFO
    stubs.reset()
    sched = [conc(s, 0, 1) for s in (s0, s1, s2, s3)]
    opts = {0: conc(ox, 0, 1), 1: conc(oy, 0, 1)}
    got = _serve(sched, opts)
    why = None
    if "error" in got:
        why = "generate_async raised / did not complete: %s" % got["error"]
    else:
        for c in (0, 1):
            want = SOLO[(c, opts[c])]
            for k in ("replies", "params", "prompts"):
                if got[c][k] != want[k]:
                    why = "conversation %s: %s differ from the same conversation served alone" % ("XY"[c], k)
                    if k != "prompts":
                        why += ": %r vs %r" % (got[c][k], want[k])
                    break
            if why:
                break
        if why is None and got["rest"] != 7:
            why = "LLM temperature at rest is %r, configured 7" % (got["rest"],)
    if not _rails.is_tracing():
        LAST_INFO = {"schedule": ["XY"[c] for c in sched], "options": {"X": bool(opts[0]), "Y": bool(opts[1])}, "why": why,
                     "replies": None if "error" in got else {"X": got[0]["replies"], "Y": got[1]["replies"]},
                     "params": None if "error" in got else {"X": got[0]["params"], "Y": got[1]["params"]}}
    return why is None


def convs_twin(s0: int, s1: int, s2: int, s3: int, ox: int, oy: int) -> bool:
    """
    Twin: claims no interleaved schedule X,Y,X,Y with different options completes with both second replies produced.
    pre: 0 <= s0 <= 1 and 0 <= s1 <= 1 and 0 <= s2 <= 1 and 0 <= s3 <= 1 and s0 + s1 + s2 + s3 == 2
    pre: 0 <= ox <= 1 and 0 <= oy <= 1
    pre: _fixed(s0=s0, s1=s1, ox=ox, oy=oy)
    post: _
    """
    stubs.reset()
    sched = [conc(s, 0, 1) for s in (s0, s1, s2, s3)]
    opts = {0: conc(ox, 0, 1), 1: conc(oy, 0, 1)}
    got = _serve(sched, opts)
    return not ("error" not in got and sched == [0, 1, 0, 1] and got[0]["replies"][1] == "RXQ" and got[1]["replies"][1] == "RYQ")


_KEY_SMOKE = {"n1": 2, "n2": 2, "r10": 0, "r11": 1, "r12": 0, "r20": 0, "r21": 0, "r22": 0,
              "t10": "hi", "t11": "yo", "t12": "", "t20": "hi", "t21": "yx", "t22": "", "k1": 0, "k2": 1}

SPEC = {
    "property": "C15",
    "functions": FUNCTIONS,
    "bounds": "(a) two conversations of 0..2 (quick) / 0..3 (thorough) messages, roles user/assistant (quick) + context/event from 3-entry pools (thorough), "
              "contents symbolic strings len<=2; (c) all interleavings of 2 (and 3) tasks each doing enter/call/exit on one shared LLM object, temperatures 0..1, "
              "attribute-backed and model_kwargs-backed LLM objects; (b,d) through the real LLMRails.generate_async: 2 conversations x 2 turns with an identical first message, every interleaving (6), llm_params options on/off per conversation, all calls awaited from one asyncio context",
    "outside": "conversations longer than 3 messages; more than 3 tasks; real provider classes; truly concurrent (overlapping) generate_async calls at LLMRails level; more than 2 conversations x 2 turns at LLMRails level; Colang 2.x",
    "assumptions": ["known findings (known_findings.json): cache key = ':'-join without roles/escaping; LLMParams restores stale values when blocks of different requests overlap"],
    "explanation": "Known-finding regions are excluded by an explicit early return in the *_outside_known / *_disciplined conditions; the raw conditions are only used to replay the witnesses.",
    "conditions": [
        {"fn": "key_separates_outside_known", "tiers": ("quick",), "slices": [{"nmax": 2, "rmax": 1, "tlen": 1}], "tcond": 400, "tpath": 10,
         "bound": "n<=2, roles user/assistant, texts len<=2", "smoke": [{"slice": {"nmax": 3, "rmax": 3}, "args": _KEY_SMOKE}]},
        {"fn": "key_separates_outside_known", "tiers": ("thorough",), "slices": [{"nmax": 3, "rmax": 3, "tlen": 2}], "tcond": 1500, "tpath": 10,
         "bound": "n<=3, all four roles, texts len<=2"},
        {"fn": "key_injective", "expect": "known_or_confirmed", "slices": [{"nmax": 2, "rmax": 1, "tlen": 2}], "tcond": 300, "tpath": 10,
         "bound": "raw statement; the solver is expected to re-find the recorded finding (any counterexample outside its region is a violation)"},
        {"fn": "params_isolated", "expect": "known_or_confirmed", "slices": [{"kind": "attr"}, {"kind": "kw"}], "tcond": 300, "tpath": 10,
         "bound": "raw statement over all schedules; expected to re-find the recorded finding"},
        {"fn": "key_twin", "expect": "counterexample", "slices": [{"nmax": 2, "rmax": 1}], "tcond": 120, "tpath": 10, "bound": "twin"},
        {"fn": "params_disciplined", "slices": [{"kind": "attr"}, {"kind": "kw"}], "tcond": 300, "tpath": 10,
         "bound": "2 tasks, every 6-step schedule, temps 0..1", "smoke": [{"slice": {"kind": "attr"}, "args": {"p0": 0, "p1": 1, "p2": 1, "p3": 1, "p4": 0, "p5": 0, "ta": 0, "tb": 1}}]},
        {"fn": "params3_disciplined", "tiers": ("thorough",), "slices": [{"kind": "attr"}, {"kind": "kw"}], "tcond": 1500, "tpath": 10,
         "bound": "3 tasks, every 9-step schedule"},
        {"fn": "convs_independent", "slices": [{"rails": 1, "fix": {"s0": 0, "ox": 0, "oy": 0}}, {"rails": 1, "fix": {"s0": 0, "ox": 0, "oy": 1}}, {"rails": 1, "fix": {"s0": 0, "ox": 1, "oy": 0}}, {"rails": 1, "fix": {"s0": 0, "ox": 1, "oy": 1}}, {"rails": 1, "fix": {"s0": 1, "ox": 0, "oy": 0}}, {"rails": 1, "fix": {"s0": 1, "ox": 0, "oy": 1}}, {"rails": 1, "fix": {"s0": 1, "ox": 1, "oy": 0}}, {"rails": 1, "fix": {"s0": 1, "ox": 1, "oy": 1}}], "tcond": 900, "tpath": 200,
         "bound": "2 conversations x 2 turns, identical first message, all 6 interleavings, llm_params options on/off per conversation, one asyncio context",
         "smoke": [{"slice": {"rails": 1}, "args": {"s0": 0, "s1": 1, "s2": 0, "s3": 1, "ox": 1, "oy": 0}}]},
        {"fn": "convs_twin", "expect": "counterexample", "slices": [{"rails": 1, "fix": {"s0": 0, "s1": 1, "ox": 1, "oy": 0}}], "tcond": 600, "tpath": 200, "bound": "twin"},
        {"fn": "params_twin", "expect": "counterexample", "slices": [{"kind": "attr"}], "tcond": 120, "tpath": 10, "bound": "twin"},
    ],
}
