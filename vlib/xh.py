"""Worker: decide ONE condition (one harness function, one slice) with CrossHair,
or re-execute it concretely (smoke vector / counterexample replay).

usage:
  xh.py sym  <module> <function> <per_condition_timeout> <per_path_timeout>
  xh.py call <module> <function> <json-args>

The slice (concrete partition parameters) is passed in env VERIF_SLICE (json).
Prints one line "XH-RESULT <json>" on stdout.
"""
import collections
import importlib
import inspect
import json
import os
import re
import sys
import time
import traceback

sys.path.insert(0, os.path.dirname(os.path.dirname(os.path.abspath(__file__))))
sys.setrecursionlimit(10000)


def emit(d):
    sys.stdout.write("\nXH-RESULT " + json.dumps(d, default=repr) + "\n")
    sys.stdout.flush()


def bind_args(fn, argstr):
    sig = inspect.signature(fn)

    def cap(*a, **k):
        b = sig.bind(*a, **k)
        b.apply_defaults()
        return dict(b.arguments)

    return eval("cap(" + argstr + ")", {"cap": cap, "float": float, "nan": float("nan"), "inf": float("inf")})


def run_sym(modname, fname, tcond, tpath):
    t0 = time.time()
    mod = importlib.import_module(modname)
    fn = getattr(mod, fname)
    import crosshair.core as core
    from crosshair.core_and_libs import analyze_function, run_checkables  # noqa: F401 (loads lib plugins)
    from crosshair.options import AnalysisKind, AnalysisOptionSet
    from crosshair.statespace import MessageType

    captured = {}
    orig = core.analyze_calltree

    def analyze_calltree(options, conditions):
        r = orig(options, conditions)
        captured["confirmed_paths"] = r.num_confirmed_paths
        captured["status"] = str(r.verification_status)
        return r

    core.analyze_calltree = analyze_calltree
    stats = collections.Counter()
    opts = AnalysisOptionSet(
        analysis_kind=[AnalysisKind.PEP316],
        per_condition_timeout=float(tcond),
        per_path_timeout=float(tpath),
        report_all=True,
        max_uninteresting_iterations=sys.maxsize,
        stats=stats,
    )
    t1 = time.time()
    checkables = analyze_function(fn, opts)
    if len(checkables) != 1:
        emit({"verdict": "harness_error", "detail": "expected exactly one postcondition, got %d" % len(checkables)})
        return
    msgs = run_checkables(checkables)
    t2 = time.time()
    out = {
        "module": modname,
        "function": fname,
        "slice": json.loads(os.environ.get("VERIF_SLICE", "{}")),
        "paths": int(stats.get("num_paths", 0)),
        "confirmed_paths": captured.get("confirmed_paths"),
        "engine_status": captured.get("status"),
        "import_s": round(t1 - t0, 2),
        "solve_s": round(t2 - t1, 2),
        "cpu_s": round(time.process_time(), 2),
        "messages": [{"state": m.state.name, "message": m.message, "line": m.line} for m in msgs],
    }
    verdict = "inconclusive"
    worst = None
    for m in msgs:
        if worst is None or m.state > worst.state:
            worst = m
    if worst is None:
        verdict = "inconclusive"
    elif worst.state == MessageType.CONFIRMED:
        verdict = "confirmed"
    elif worst.state in (MessageType.POST_FAIL, MessageType.EXEC_ERR, MessageType.POST_ERR):
        verdict = "counterexample"
        mm = re.search(r"when calling %s\((.*?)\)(?: \(which (?:returns|raises) .*\))?$" % re.escape(fname), worst.message, re.S)
        if mm:
            try:
                out["cex_args"] = bind_args(fn, mm.group(1))
            except Exception as e:  # unparsable rendering
                out["cex_parse_error"] = repr(e)
        out["cex_message"] = worst.message
        if "NotDeterministic" in worst.message:
            verdict = "harness_error"
            out["detail"] = worst.message
    elif worst.state == MessageType.PRE_UNSAT:
        verdict = "pre_unsat"
    elif worst.state == MessageType.CANNOT_CONFIRM:
        verdict = "inconclusive"
    else:
        verdict = "harness_error"
        out["detail"] = worst.message
    out["verdict"] = verdict
    emit(out)


def run_call(modname, fname, args_json):
    """Plain re-execution: no symbolic engine involved."""
    t0 = time.time()
    mod = importlib.import_module(modname)
    fn = getattr(mod, fname)
    args = json.loads(args_json)
    out = {"module": modname, "function": fname, "args": args,
           "slice": json.loads(os.environ.get("VERIF_SLICE", "{}"))}
    try:
        r = fn(**args)
        out["returned"] = bool(r)
        out["holds"] = bool(r)
        info = getattr(mod, "LAST_INFO", None)
        if info:
            out["info"] = info
    except BaseException as e:
        if type(e).__name__ in ("OutOfChoices", "HarnessError", "Suspended", "StepBudget"):
            out["harness_error"] = repr(e)
        out["holds"] = False
        out["raised"] = repr(e)
        out["traceback"] = traceback.format_exc()[-3000:]
        info = getattr(mod, "LAST_INFO", None)
        if info:
            out["info"] = info
    out["wall_s"] = round(time.time() - t0, 2)
    emit(out)


if __name__ == "__main__":
    mode = sys.argv[1]
    try:
        if mode == "sym":
            run_sym(*sys.argv[2:6])
        elif mode == "call":
            run_call(*sys.argv[2:5])
        else:
            raise SystemExit("bad mode")
    except SystemExit:
        raise
    except BaseException as e:  # noqa
        emit({"verdict": "harness_error", "detail": repr(e), "traceback": traceback.format_exc()[-4000:]})
        sys.exit(3)
