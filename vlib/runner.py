"""Orchestrator: ./check <ID> --tier quick|thorough

For the harness module of a property it
  1. replays the witnesses of open known findings (prints KNOWN-FINDING lines),
  2. runs the concrete smoke vectors of every condition (plain interpreter),
  3. decides every (condition, slice) with CrossHair/z3 in its own process,
  4. replays every counterexample in a fresh plain interpreter before reporting,
  5. writes evidence/<ID>.json, prints VIOLATION lines, exits 0 / 1 / 2.

Exit 2 (never 0, never a VIOLATION) = inconclusive or harness error.
"""
import argparse
import concurrent.futures as cf
import hashlib
import importlib
import json
import os
import subprocess
import sys
import time

ROOT = os.path.dirname(os.path.dirname(os.path.abspath(__file__)))
sys.path.insert(0, ROOT)
PY = os.path.join(ROOT, ".venv", "bin", "python")
XH = os.path.join(ROOT, "vlib", "xh.py")
KF_FILE = os.path.join(ROOT, "known_findings.json")
# The registered commands always analyse /repo and write /verif/evidence. The two variables below exist only so that seeded changes can be
# tried in scratch worktrees (tools/try_seed_wt.sh) without touching /repo or the committed evidence.
REPO = os.environ.get("VERIF_REPO", "/repo")
OUT = os.environ.get("VERIF_OUT", ROOT)


def worker_env(slice_):
    env = dict(os.environ)
    env["VERIF_SLICE"] = json.dumps(slice_)
    env["PYTHONHASHSEED"] = "0"
    env["PYTHONPATH"] = ROOT + os.pathsep + REPO
    env["PYTHONDONTWRITEBYTECODE"] = "1"
    env["NEMO_GUARDRAILS_VERIF"] = "1"
    return env


def parse_result(stdout):
    for line in reversed(stdout.splitlines()):
        if line.startswith("XH-RESULT "):
            return json.loads(line[len("XH-RESULT "):])
    return None


def run_worker(argv, slice_, wall):
    t0 = time.time()
    try:
        p = subprocess.run([PY, XH] + argv, env=worker_env(slice_), capture_output=True, text=True, timeout=wall, cwd=ROOT)
        res = parse_result(p.stdout)
        if res is None:
            res = {"verdict": "harness_error", "detail": "worker produced no result (exit %s)" % p.returncode,
                   "stderr": p.stderr[-3000:], "stdout": p.stdout[-1000:]}
    except subprocess.TimeoutExpired as e:
        res = {"verdict": "inconclusive", "detail": "wall timeout %ss" % wall}
    res["wall_s"] = round(time.time() - t0, 2)
    return res


def sym(module, cond, slice_):
    wall = cond.get("wall") or int(cond["tcond"] * 2.5 + 90)
    r = run_worker(["sym", module, cond["fn"], str(cond["tcond"]), str(cond["tpath"])], slice_, wall)
    r["fn"] = cond["fn"]
    r["slice"] = slice_
    return r


def call(module, fn, slice_, args, wall=600):
    r = run_worker(["call", module, fn, json.dumps(args)], slice_, wall)
    r["fn"] = fn
    r["slice"] = slice_
    return r


def load_known(pid):
    if not os.path.exists(KF_FILE):
        return []
    data = json.load(open(KF_FILE))
    return [f for f in data.get("findings", []) if f.get("property") == pid and f.get("status", "open") == "open"]


def in_known_region(module, finding, fn, slice_, args):
    """A counterexample is covered by a known finding iff the finding names this
    harness function and its region predicate (a function in the harness module,
    evaluated on the concrete counterexample) accepts it."""
    if finding.get("fn") != fn:
        return False
    mod = importlib.import_module(module)
    region = getattr(mod, finding["region"])
    try:
        return bool(region(slice_, args))
    except Exception:
        return False


def main():
    ap = argparse.ArgumentParser()
    ap.add_argument("pid")
    ap.add_argument("--tier", default=os.environ.get("VERIF_TIER", "quick"))
    ap.add_argument("--replay")
    ap.add_argument("--only", help="only conditions whose fn matches")
    ap.add_argument("--jobs", type=int, default=int(os.environ.get("VERIF_JOBS", "16")))
    a = ap.parse_args()
    pid = a.pid.upper()
    module = "harness." + pid.lower()
    seed = int(os.environ.get("VERIF_SEED", "0"))
    t_start = time.time()

    if a.replay:
        rp = json.load(open(a.replay))
        r = call(rp["module"], rp["fn"], rp["slice"], rp["args"])
        print(json.dumps(r, indent=1))
        if not r.get("holds"):
            print("VIOLATION property=%s replay=%s" % (pid, a.replay))
            sys.exit(1)
        print("replay: property holds on this input now")
        sys.exit(0)

    os.environ["VERIF_SLICE"] = "{}"
    mod = importlib.import_module(module)
    spec = mod.SPEC
    conds = [c for c in spec["conditions"] if a.tier in c.get("tiers", ("quick", "thorough"))]
    if a.only:
        conds = [c for c in conds if a.only in c["fn"]]
    known = load_known(pid)

    violations, inconclusive, harness_errors, known_lines = [], [], [], []
    samples, cond_reports = [], []
    evid_path = os.path.join(OUT, "evidence", pid + ".json")

    # 1. known findings: replay witnesses
    for f in known:
        r = call(module, f["fn"], f.get("slice", {}), f["witness"])
        if not r.get("holds", True):
            line = "KNOWN-FINDING: property=%s %s" % (pid, f["what"])
            print(line, flush=True)
            known_lines.append({"key": f["key"], "what": f["what"], "witness_still_fails": True})
        else:
            print("note: known finding %s no longer reproduces on this tree (%s)" % (f["key"], r.get("detail", "holds")), flush=True)
            known_lines.append({"key": f["key"], "what": f["what"], "witness_still_fails": False})

    # 2+3. smoke vectors and symbolic conditions, in parallel
    jobs = []
    with cf.ThreadPoolExecutor(max_workers=a.jobs) as ex:
        futs = {}
        for c in conds:
            for sm in c.get("smoke", []):
                futs[ex.submit(call, module, c["fn"], sm["slice"], sm["args"])] = ("smoke", c, sm["slice"], sm["args"])
        # longest first
        order = sorted(((c, s) for c in conds for s in c["slices"]), key=lambda cs: -cs[0]["tcond"])
        for c, s in order:
            futs[ex.submit(sym, module, c, s)] = ("sym", c, s, None)
        results = []
        for fu in cf.as_completed(futs):
            kind, c, s, sm = futs[fu]
            results.append((kind, c, s, sm, fu.result()))

    def record_violation(c, s, args, replay_res, origin):
        for f in known:
            if in_known_region(module, f, c["fn"], s, args):
                known_lines.append({"key": f["key"], "covered_counterexample": args, "slice": s})
                print("note: counterexample %s of %s lies in the region of known finding %s" % (json.dumps(args), c["fn"], f["key"]), flush=True)
                return
        h = hashlib.sha1(json.dumps([module, c["fn"], s, args], sort_keys=True, default=repr).encode()).hexdigest()[:12]
        os.makedirs(os.path.join(OUT, "replays", pid), exist_ok=True)
        path = os.path.join(OUT, "replays", pid, h + ".json")
        json.dump({"property": pid, "module": module, "fn": c["fn"], "slice": s, "args": args,
                   "origin": origin, "replay_result": replay_res}, open(path, "w"), indent=1, default=repr)
        violations.append({"fn": c["fn"], "slice": s, "args": args, "replay": path,
                           "observed": replay_res.get("info") or replay_res.get("raised")})
        print("VIOLATION property=%s replay=%s" % (pid, path), flush=True)

    total_paths = confirmed_paths = 0
    solver_s = 0.0
    obligations = discharged = 0
    for kind, c, s, sm, r in results:
        expect = c.get("expect", "confirmed")
        if kind == "smoke":
            if "holds" not in r:
                harness_errors.append({"fn": c["fn"], "slice": s, "smoke": sm, "detail": r})
            elif expect in ("confirmed", "known_or_confirmed") and not r["holds"]:
                record_violation(c, s, sm, r, "smoke vector (plain run)")
            elif expect in ("confirmed", "known_or_confirmed"):
                if len(samples) < 12:
                    samples.append({"kind": "smoke", "fn": c["fn"], "slice": s, "args": sm, "observed": r.get("info")})
            continue
        obligations += 1
        total_paths += r.get("paths") or 0
        confirmed_paths += r.get("confirmed_paths") or 0
        solver_s += r.get("solve_s") or 0
        rep = {"fn": c["fn"], "slice": s, "expect": expect, "verdict": r.get("verdict"), "paths": r.get("paths"),
               "confirmed_paths": r.get("confirmed_paths"), "solve_s": r.get("solve_s"), "cpu_s": r.get("cpu_s"),
               "wall_s": r.get("wall_s"), "budget_cpu_s": c["tcond"], "bound": c.get("bound")}
        v = r.get("verdict")
        if expect in ("confirmed", "known_or_confirmed"):
            if v == "confirmed":
                discharged += 1
            elif v == "counterexample" and "cex_args" in r:
                if expect == "known_or_confirmed":
                    discharged += 1  # the solver re-found a defect; record_violation decides whether it is the listed one
                rr = call(module, c["fn"], s, r["cex_args"])
                rep["counterexample"] = r["cex_args"]
                rep["replay_holds"] = rr.get("holds")
                if rr.get("harness_error"):
                    harness_errors.append({"fn": c["fn"], "slice": s, "detail": "harness budget/assumption broken: " + rr["harness_error"], "cex": r.get("cex_args")})
                elif rr.get("holds") is False:
                    record_violation(c, s, r["cex_args"], rr, "solver counterexample: " + r.get("cex_message", ""))
                else:
                    harness_errors.append({"fn": c["fn"], "slice": s, "detail": "solver counterexample did not reproduce in plain replay",
                                           "cex": r.get("cex_args"), "replay": rr})
            elif v in ("inconclusive", "pre_unsat"):
                inconclusive.append(rep)
                rep["detail"] = r.get("detail") or r.get("messages")
            else:
                harness_errors.append({"fn": c["fn"], "slice": s, "detail": r})
        else:  # reachability twin: must be refuted
            if v == "counterexample":
                discharged += 1
                rep["witness"] = r.get("cex_args")
                if len(samples) < 24:
                    samples.append({"kind": "reachability witness (solver model)", "fn": c["fn"], "slice": s, "args": r.get("cex_args")})
            elif v == "confirmed":
                harness_errors.append({"fn": c["fn"], "slice": s, "detail": "reachability twin was confirmed: harness is vacuous"})
            elif v in ("inconclusive", "pre_unsat"):
                inconclusive.append(rep)
            else:
                harness_errors.append({"fn": c["fn"], "slice": s, "detail": r})
        cond_reports.append(rep)

    wall = round(time.time() - t_start, 2)
    cond_reports.sort(key=lambda r: (r["fn"], json.dumps(r["slice"], sort_keys=True)))
    from vlib import stubs
    evidence = {
        "property_id": pid,
        "tier": a.tier,
        "seed": seed,
        "level": "other",
        "coverage": {
            "explanation": "Bounded symbolic execution of the real Python code (CrossHair 0.0.110 over z3): each obligation is one "
                           "(harness condition, concrete slice); 'confirmed' means CrossHair exhausted the path tree of the real functions within the "
                           "stated bounds and z3 found the postcondition valid on every path; reachability twins must be refuted. "
                           "Nothing is sampled; inconclusive results make the check exit 2. " + spec.get("explanation", ""),
            "obligations": obligations,
            "discharged": discharged,
            "evaluations": total_paths,
            "distinct_nontrivial": confirmed_paths,
            "rule": "evaluations = execution paths of the real code explored by the symbolic engine (each is a distinct path condition); "
                    "distinct_nontrivial = paths that satisfied every precondition, ran the code under test to the end and had the postcondition proved by z3",
            "exhaustive": (discharged == obligations and not inconclusive and not harness_errors),
            "functions_encoded": spec["functions"],
            "bounds": spec.get("bounds"),
            "outside_bounds": spec.get("outside"),
            "conditions": cond_reports,
            "solver_time_s": round(solver_s, 1),
            "samples": samples or [{"note": "no smoke vectors declared"}],
            "known_findings": known_lines,
            "checker_cmd": "./check %s --tier %s" % (pid, a.tier),
            "trusted_base": ["CrossHair 0.0.110", "z3 5.1.0", "CPython 3.12", "harness oracle + stubs listed under assumptions"],
            "inconclusive": inconclusive,
            "harness_errors": [json.loads(json.dumps(h, default=repr)) for h in harness_errors][:20],
            "violations_detail": violations,
        },
        "assumptions": list(spec.get("assumptions", [])) + list(stubs.USED),
        "wall_s": wall,
        "violations": len(violations),
    }
    os.makedirs(os.path.dirname(evid_path), exist_ok=True)
    json.dump(evidence, open(evid_path, "w"), indent=1, default=repr)
    print("%s tier=%s obligations=%d discharged=%d paths=%d violations=%d inconclusive=%d harness_errors=%d wall=%.0fs"
          % (pid, a.tier, obligations, discharged, total_paths, len(violations), len(inconclusive), len(harness_errors), wall))
    if violations:
        sys.exit(1)
    if inconclusive or harness_errors:
        for x in inconclusive:
            print("INCONCLUSIVE property=%s %s %s" % (pid, x["fn"], json.dumps(x["slice"])))
        for x in harness_errors:
            print("HARNESS-ERROR property=%s %s" % (pid, json.dumps(x, default=repr)[:1500]))
        sys.exit(2)
    sys.exit(0)


if __name__ == "__main__":
    main()
