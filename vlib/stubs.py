"""Environment stubs shared by every harness (DESIGN.md section 2.3).

Importing this module installs the stubs.  Everything here is ordinary
deterministic Python, so the same code runs under CrossHair's tracer (symbolic
run) and in a plain interpreter (smoke vectors, counterexample replay).

Stubs never replace code that a property is anchored in; they replace the
*environment* of that code: id generator, clocks, the random tie-break source
and two CrossHair engine quirks.
"""
import os
import sys
import types
import datetime as _dt

os.environ.setdefault("TOKENIZERS_PARALLELISM", "false")

USED = []  # names of the stubs installed (reported in evidence)


# --------------------------------------------------------------------------
# ids
# --------------------------------------------------------------------------
class _Ids:
    n = 0


def new_uuid() -> str:
    _Ids.n += 1
    return "00000000-0000-4000-8000-%012d" % _Ids.n


def install_ids():
    import nemoguardrails.utils as u

    u.new_uuid = new_uuid
    for name, mod in list(sys.modules.items()):
        if name.startswith("nemoguardrails") and mod is not None:
            if getattr(mod, "new_uuid", None) is not None and mod is not u:
                mod.new_uuid = new_uuid
    USED.append("ids: nemoguardrails.utils.new_uuid -> fresh pairwise-distinct uuid4-shaped strings from a counter")


# --------------------------------------------------------------------------
# clock
# --------------------------------------------------------------------------
class Clock:
    now = 1_700_000_000.0  # seconds


def _time():
    return Clock.now


class _FakeTimeModule(types.ModuleType):
    def __init__(self, real):
        super().__init__("time")
        self.__dict__.update(real.__dict__)
        self.time = _time
        self.monotonic = _time
        self.perf_counter = _time


def _untraced():
    try:
        from crosshair.tracers import NoTracing, is_tracing

        if is_tracing():
            return NoTracing()
    except ImportError:
        pass
    import contextlib

    return contextlib.nullcontext()


class FakeDateTime(_dt.datetime):
    """datetime whose now() is the harness clock; values are real C datetime objects built outside
    the symbolic tracer (CrossHair would otherwise substitute its own datetime model)."""

    @classmethod
    def now(cls, tz=None):
        with _untraced():
            base = _dt.datetime.fromtimestamp(0, tz=_dt.timezone.utc) + _dt.timedelta(seconds=float(Clock.now))
            if tz is None:
                return base.replace(tzinfo=None)
            return base.astimezone(tz)


def real_timedelta(*a, **k):
    with _untraced():
        return _dt.timedelta(*a, **k)


def advance(seconds: float):
    Clock.now += seconds


def install_clock():
    import time as real_time

    fake = _FakeTimeModule(real_time)
    for name, mod in list(sys.modules.items()):
        if not name.startswith("nemoguardrails") or mod is None:
            continue
        if name.endswith("serialization"):
            continue
        d = mod.__dict__
        if d.get("time") is real_time:
            d["time"] = fake
        elif d.get("time") is real_time.time:
            d["time"] = _time
        if d.get("datetime") is _dt.datetime:
            d["datetime"] = FakeDateTime
        if d.get("timedelta") is _dt.timedelta:
            d["timedelta"] = real_timedelta
    USED.append("clock: time.time/monotonic/perf_counter and datetime.now inside nemoguardrails modules -> harness-controlled non-decreasing instant")


# --------------------------------------------------------------------------
# random tie-breaks
# --------------------------------------------------------------------------
class OutOfChoices(BaseException):
    """BaseException on purpose: the code under test catches Exception and would turn a harness budget problem into a flow failure."""


class Choices:
    pending = []  # harness inputs (bounded symbolic ints), consumed left to right
    consumed = 0
    sizes = []


def set_choices(values):
    Choices.pending = list(values)
    Choices.consumed = 0
    Choices.sizes = []


def choice(seq):
    n = len(seq)
    if n == 1:
        return seq[0]
    if not Choices.pending:
        raise OutOfChoices("more random tie-breaks than the harness provided inputs for")
    c = Choices.pending.pop(0)
    Choices.consumed += 1
    Choices.sizes.append(n)
    k = 0
    # branch so that the index is concrete on each path; c stays symbolic
    while k < n - 1:
        if c % n == k:
            break
        k += 1
    return seq[k]


def install_choice():
    import random

    fake = types.ModuleType("random")
    fake.__dict__.update(random.__dict__)
    fake.choice = choice
    for name, mod in list(sys.modules.items()):
        if not name.startswith("nemoguardrails") or mod is None:
            continue
        if mod.__dict__.get("random") is random and name != "nemoguardrails.utils":
            mod.__dict__["random"] = fake
    USED.append("choice: random.choice inside nemoguardrails modules -> seq[c % len(seq)] with c the next bounded symbolic harness input; running out raises")


# --------------------------------------------------------------------------
# CrossHair engine quirks
# --------------------------------------------------------------------------
def install_engine_quirks():
    import logging

    logging.disable(logging.CRITICAL)
    USED.append("logging: disabled process-wide (log records read the clock, which the engine would turn into symbolic floats; logging is never the subject)")
    try:
        import crosshair.core as core
        from crosshair.tracers import NoTracing
    except Exception:  # plain interpreter without crosshair: nothing to do
        return
    orig = core.consider_shortcircuit

    def consider_shortcircuit(fn, sig, bound, subconditions, allow_interpretation):
        if allow_interpretation:
            return None
        return orig(fn, sig, bound, subconditions, allow_interpretation)

    core.consider_shortcircuit = consider_shortcircuit
    try:
        import builtins

        import simpleeval
        from crosshair.util import CrossHairValue

        def _callable(x):
            # simpleeval probes callable() on every name/attribute value; the C builtin would force the engine to
            # realise (enumerate) symbolic numbers/strings, which are never callable anyway.
            with NoTracing():
                if isinstance(x, CrossHairValue):
                    return False
            return builtins.callable(x)

        simpleeval.callable = _callable
        USED.append("engine: simpleeval's callable() probe answers False for symbolic scalars without realising them")

        orig_init = simpleeval.SimpleEval.__init__

        def __init__(self, *a, **k):
            with NoTracing():
                orig_init(self, *a, **k)

        simpleeval.SimpleEval.__init__ = __init__
        for cls in simpleeval.SimpleEval.__subclasses__():
            if "__init__" in cls.__dict__:
                sub_init = cls.__dict__["__init__"]

                def mk(sub_init):
                    def __init__(self, *a, **k):
                        with NoTracing():
                            sub_init(self, *a, **k)

                    return __init__

                cls.__init__ = mk(sub_init)
    except ImportError:
        pass
    USED.append("engine: crosshair short-circuiting of contract-bearing callees disabled (always sound); simpleeval evaluator tables built untraced (CrossHair 0.0.110 crashes on >16-entry class-keyed dict literals)")


def install_fast_re():
    """re.* calls made by nemoguardrails modules run natively (untraced) when every argument is concrete.
    CrossHair otherwise interprets even fully concrete regex calls with its pure-Python regex engine (10-100x slower).
    With any symbolic argument the traced/modelled path is used unchanged."""
    try:
        from crosshair.tracers import NoTracing, is_tracing
        from crosshair.util import CrossHairValue
    except ImportError:
        return
    import re as real_re

    def _all_concrete(args, kwargs):
        with NoTracing():
            for a in list(args) + list(kwargs.values()):
                if isinstance(a, CrossHairValue):
                    return False
                if isinstance(a, (list, tuple)):
                    for x in a:
                        if isinstance(x, CrossHairValue):
                            return False
        return True

    def wrap(fn):
        def fast(*args, **kwargs):
            if is_tracing() and _all_concrete(args, kwargs):
                with NoTracing():
                    return fn(*args, **kwargs)
            return fn(*args, **kwargs)

        return fast

    proxy = types.ModuleType("re")
    proxy.__dict__.update(real_re.__dict__)
    for name in ("sub", "subn", "search", "match", "fullmatch", "findall", "finditer", "split", "compile", "escape"):
        setattr(proxy, name, wrap(getattr(real_re, name)))
    n = 0
    for name, mod in list(sys.modules.items()):
        if name.startswith("nemoguardrails") and mod is not None and mod.__dict__.get("re") is real_re:
            mod.__dict__["re"] = proxy
            n += 1
    USED.append("engine: re.* calls inside nemoguardrails modules execute natively when all arguments are concrete (symbolic arguments still use the engine's regex model)")


def install_log_helpers():
    """Eagerly evaluated log-argument helpers get empty bodies (they str() whole contexts, realising symbolic values)."""
    mod = sys.modules.get("nemoguardrails.colang.v2_x.runtime.statemachine")
    if mod is not None and hasattr(mod, "_context_log"):
        mod._context_log = lambda flow_state: ""
        USED.append("logging: statemachine._context_log (argument of a log.info call) returns '' instead of str(context)")


def reset():
    """Called by harnesses at the start of every path."""
    _Ids.n = 0
    Clock.now = 1_700_000_000.0
    set_choices([])


def install(ids=True, clock=True, choice=True):
    if ids:
        install_ids()
    if clock:
        install_clock()
    if choice:
        install_choice()
    install_engine_quirks()
    install_log_helpers()
    install_fast_re()
